"""Generate Verus spec functions (decoder / encoder) and their inverse lemmas from an
independent layout table.

The tables in contracts/layouts/*.json are typed in from the Cisco / RFC format descriptions,
not from the code.  `dec` reads each field at its table offset; `enc` concatenates the big-endian
images in table order.  For a part with "skip": n the decoder takes the bytes *after* the first n
bytes of the part (the 2-byte version field is consumed by the dispatcher before the sub-parser
runs); those bytes belong to a "const" field that the decoder injects and the encoder emits.
The lemmas (enc_len, enc_dec, enc_inj) are *proved* by Verus; the generator only writes the
proof steps (one join / split per field), so a wrong table cannot make them pass.
"""
import json
import os

V = os.path.dirname(os.path.dirname(os.path.abspath(__file__)))


def _rd(ty, off):
    if ty == "u8":
        return "b[o + %d]" % off
    if ty == "u16":
        return "be16(b, o + %d)" % off
    if ty == "u32":
        return "be32(b, o + %d)" % off
    if ty == "ipv4":
        return "ipv4_of(be32(b, o + %d))" % off
    raise ValueError(ty)


def _wr(ty, expr):
    if ty == "u8":
        return "seq![%s]" % expr
    if ty in ("u16", "const"):
        return "enc16(%s)" % expr
    if ty == "u32":
        return "enc32(%s)" % expr
    if ty == "ipv4":
        return "ipv4_octets(%s)" % expr
    raise ValueError(ty)


def gen_part(name, part, P, ver, lemmas=True, append=False):
    st = P["struct"]
    shift = P.get("skip", 0)
    pre = "%s_%s" % (name, part)
    size = P["size"]
    out = []
    out.append("pub open spec fn %s_size() -> int { %d }" % (pre, size - shift))
    fields = []
    enc_fields = []   # (fname, off_in_enc, width, ty)
    for fname, off, w, ty in P["fields"]:
        if ty == "const":
            fields.append("%s: %d" % (fname, ver))
            enc_fields.append((fname, off, w, "const"))
        elif ty.startswith("derived:"):
            fields.append("%s: %s(b[o + %d])" % (fname, ty.split(":")[1], off - shift))
        else:
            fields.append("%s: %s" % (fname, _rd(ty, off - shift)))
            enc_fields.append((fname, off, w, ty))
    out.append("/// %s of `%s` read from `b` at offset `o`%s" % (
        part, name, " (o points just after the %d skipped bytes)" % shift if shift else ""))
    out.append("#[verifier::opaque]\npub open spec fn %s_dec(b: Seq<u8>, o: int) -> %s {\n    %s {\n        %s,\n    }\n}" % (
        pre, st, st, ",\n        ".join(fields)))
    encs = [_wr(ty, "h.%s" % f) for f, off, w, ty in enc_fields]
    out.append("/// wire image of a %s, fields in table order" % part)
    out.append("pub open spec fn %s_enc(h: %s) -> Seq<u8> {\n    %s\n}" % (pre, st, "\n    + ".join(encs)))

    # ---- partial sums helper text
    def sums(var):
        lines = []
        for i, (f, off, w, ty) in enumerate(enc_fields):
            lines.append("    let %se%d = %s;" % (var, i, _wr(ty, "%s.%s" % (var, f))))
            if ty == "ipv4":
                lines.append("    assert(%se%d.len() == 4);" % (var, i))
            if i == 0:
                lines.append("    let %ss0 = %se0;" % (var, var))
            else:
                lines.append("    let %ss%d = %ss%d + %se%d;" % (var, i, var, i - 1, var, i))
            lines.append("    assert(%ss%d.len() == %d);" % (var, i, off + w))
        return lines

    n = len(enc_fields)
    if append:
        # acc + e0 + e1 + ... (left-assoc, as produced by successive extend_from_slice) == acc + enc(h)
        lines = ["    broadcast use axiom_ipv4_inj;"] + sums("h")
        lhs = "acc"
        for i in range(n):
            lhs = "%s + he%d" % (lhs, i)
            if i == 0:
                lines.append("    let t0 = acc + he0;")
                lines.append("    assert(t0 == acc + hs0);")
            else:
                lines.append("    let t%d = t%d + he%d;" % (i, i - 1, i))
                lines.append("    assert(t%d =~= acc + hs%d);" % (i, i))
        lines.append("    assert(%s_enc(h) == hs%d);" % (pre, n - 1))
        full = "acc + " + " + ".join(_wr(ty, "h.%s" % f) for f, off, w, ty in enc_fields)
        out.append("pub proof fn lemma_%s_enc_append(acc: Seq<u8>, h: %s)\n    ensures %s == acc + %s_enc(h),\n{\n%s\n}" % (
            pre, st, full, pre, "\n".join(lines)))
    if not lemmas:
        return out
    # ---- dec_fields: the decoder, field by field (so users need not reveal the whole opaque body)
    ens = []
    for fname, off, w, ty in P["fields"]:
        if ty == "const":
            ens.append("%s_dec(b, o).%s == %d" % (pre, fname, ver))
        elif ty.startswith("derived:"):
            ens.append("%s_dec(b, o).%s == %s(b[o + %d])" % (pre, fname, ty.split(":")[1], off - shift))
        else:
            ens.append("%s_dec(b, o).%s == %s" % (pre, fname, _rd(ty, off - shift)))
    out.append("pub proof fn lemma_%s_dec_fields(b: Seq<u8>, o: int)\n    ensures\n        %s,\n{\n    reveal(%s_dec);\n}" % (
        pre, ",\n        ".join(ens), pre))
    # ---- enc_len
    out.append("pub proof fn lemma_%s_enc_len(h: %s)\n    ensures %s_enc(h).len() == %d,\n{\n    broadcast use axiom_ipv4_inj;\n%s\n    assert(%s_enc(h) == hs%d);\n}" % (
        pre, st, pre, size, "\n".join(sums("h")), pre, n - 1))
    # ---- enc_dec
    lines = ["    reveal(%s_dec);" % pre, "    broadcast use axiom_ipv4_octets;", "    let h = %s_dec(b, o);" % pre]
    if shift:
        lines.append("    let c = %s;" % "enc16(%d)" % ver)
        lines.append("    let w = c + b.subrange(o, o + %d);" % (size - shift))
        target = "w"
        base = "w"
        boff = lambda off: "%d" % off          # offsets inside w
        lines.append("    assert(w.len() == %d);" % size)
    else:
        base = "b"
        boff = lambda off: "o + %d" % off
    for i, (f, off, w_, ty) in enumerate(enc_fields):
        e = _wr(ty, "h.%s" % f)
        lines.append("    let e%d = %s;" % (i, e))
        if ty == "const":
            lines.append("    assert(e%d =~= %s.subrange(%s, %s));" % (i, base, boff(off), boff(off + w_)))
        else:
            src_off = "o + %d" % (off - shift)
            if ty == "u16":
                lines.append("    lemma_enc16(b, %s);" % src_off)
            elif ty in ("u32", "ipv4"):
                lines.append("    lemma_enc32(b, %s);" % src_off)
            lines.append("    assert(e%d =~= b.subrange(%s, %s + %d));" % (i, src_off, src_off, w_))
            if shift:
                lines.append("    assert(b.subrange(%s, %s + %d) =~= w.subrange(%d, %d));" % (src_off, src_off, w_, off, off + w_))
        if i == 0:
            lines.append("    let s0 = e0;")
            lines.append("    assert(s0 == %s.subrange(%s, %s));" % (base, boff(0), boff(off + w_)))
        else:
            lines.append("    let s%d = s%d + e%d;" % (i, i - 1, i))
            lines.append("    lemma_seq_join(%s, %s, %s, %s);" % (base, boff(0), boff(off), boff(off + w_)))
            lines.append("    assert(s%d == %s.subrange(%s, %s));" % (i, base, boff(0), boff(off + w_)))
    lines.append("    assert(%s_enc(h) == s%d);" % (pre, n - 1))
    if shift:
        lines.append("    assert(w.subrange(0, %d) =~= w);" % size)
        ens = "%s_enc(%s_dec(b, o)) == enc16(%d) + b.subrange(o, o + %d)" % (pre, pre, ver, size - shift)
    else:
        ens = "%s_enc(%s_dec(b, o)) == b.subrange(o, o + %d)" % (pre, pre, size)
    out.append("pub proof fn lemma_%s_enc_dec(b: Seq<u8>, o: int)\n    requires 0 <= o, o + %d <= b.len(),\n    ensures %s,\n{\n%s\n}" % (
        pre, size - shift, ens, "\n".join(lines)))
    # ---- enc_inj
    lines = ["    broadcast use axiom_ipv4_inj;"] + sums("x") + sums("y")
    lines.append("    assert(%s_enc(x) == xs%d);" % (pre, n - 1))
    lines.append("    assert(%s_enc(y) == ys%d);" % (pre, n - 1))
    for i in range(n - 1, -1, -1):
        f, off, w_, ty = enc_fields[i]
        if i > 0:
            lines.append("    lemma_seq_split_eq(xs%d, xe%d, ys%d, ye%d);" % (i - 1, i, i - 1, i))
        else:
            lines.append("    assert(xe0 == ye0);")
        if ty in ("u16", "const"):
            lines.append("    lemma_dec16(x.%s); lemma_dec16(y.%s);" % (f, f))
        elif ty == "u32":
            lines.append("    lemma_dec32(x.%s); lemma_dec32(y.%s);" % (f, f))
        elif ty == "u8":
            lines.append("    assert(xe%d[0] == ye%d[0]);" % (i, i))
        elif ty == "ipv4":
            lines.append("    assert(ipv4_of(be32(ipv4_octets(x.%s), 0)) == ipv4_of(be32(ipv4_octets(y.%s), 0)));" % (f, f))
        lines.append("    assert(x.%s == y.%s);" % (f, f))
    derived = [f for f, off, w_, ty in P["fields"] if ty.startswith("derived:")]
    req = ["%s_enc(x) == %s_enc(y)" % (pre, pre)] + ["x.%s == y.%s" % (f, f) for f in derived]
    out.append("pub proof fn lemma_%s_enc_inj(x: %s, y: %s)\n    requires %s,\n    ensures x == y,\n{\n%s\n}" % (
        pre, st, st, ", ".join(req), "\n".join(lines)))
    return out


def gen(name, lemmas=False, append=False):
    L = json.load(open(os.path.join(V, "contracts", "layouts", name + ".json")))
    ver = L.get("version", 0)
    out = ["// generated by tools/layouts.py from contracts/layouts/%s.json -- %s" % (name, L["_source"]), "verus! {"]
    for part in L["parts"]:
        out += gen_part(name, part, L[part], ver, lemmas, append)
    out.append("} // verus!")
    return "\n".join(out) + "\n"


def gen_kani(name):
    """Kani harness module (Rust text) checking the real compiled parsers of `name` against the layout table:
    loop-free over all byte contents and every input length 0..=size+1  => complete proofs of the leaf contracts."""
    L = json.load(open(os.path.join(V, "contracts", "layouts", name + ".json")))
    ver = L.get("version", 0)
    out = ["// GENERATED by tools/layouts.py from contracts/layouts/%s.json -- do not edit" % name,
           "use super::*;", "use nom_derive::Parse;", ""]
    for part in L["parts"]:
        P = L[part]
        st = P["struct"]
        shift = P.get("skip", 0)
        size = P["size"] - shift
        checks = []
        for fname, off, w, ty in P["fields"]:
            o = off - shift
            if ty == "const":
                checks.append("assert!(v.%s == %d);" % (fname, ver))
            elif ty == "u8":
                checks.append("assert!(v.%s == i[%d]);" % (fname, o))
            elif ty == "u16":
                checks.append("assert!(v.%s == u16::from_be_bytes([i[%d], i[%d]]));" % (fname, o, o + 1))
            elif ty == "u32":
                checks.append("assert!(v.%s == u32::from_be_bytes([i[%d], i[%d], i[%d], i[%d]]));" % (fname, o, o + 1, o + 2, o + 3))
            elif ty == "ipv4":
                checks.append("assert!(v.%s.octets() == [i[%d], i[%d], i[%d], i[%d]]);" % (fname, o, o + 1, o + 2, o + 3))
            elif ty.startswith("derived:"):
                checks.append("assert!(v.%s == ProtocolTypes::from(i[%d]));" % (fname, o))
        out.append("""/// K.%(name)s.%(part)s -- %(st)s::parse against the layout table, all byte contents, all lengths 0..=%(n)d
#[kani::proof]
#[kani::unwind(6)]
fn k_%(name)s_%(part)s() {
    let buf: [u8; %(n)d] = kani::any();
    let n: usize = kani::any();
    kani::assume(n <= %(n)d);
    let i = &buf[..n];
    match %(st)s::parse(i) {
        Ok((rest, v)) => {
            kani::cover!(true, "ok");
            assert!(n >= %(size)d, "a truncated %(part)s was accepted");
            assert!(rest.len() == n - %(size)d && rest.as_ptr() == i[%(size)d..].as_ptr(), "%(part)s is not %(size)d bytes");
            %(checks)s
        }
        Err(_) => { kani::cover!(true, "err"); assert!(n < %(size)d, "a complete %(part)s was rejected"); }
    }
}
""" % dict(name=name, part=part, st=st, n=size + 1, size=size, checks="\n            ".join(checks)))
    return "\n".join(out)


if __name__ == "__main__":
    import sys
    print(gen(sys.argv[1], len(sys.argv) > 2))
