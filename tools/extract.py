"""Mechanical extractor: unit template + /repo working tree -> one Verus file.

A unit template (contracts/verus/units/*.rs) is Verus text plus `//@` directives.
The directives pull *verbatim* item text out of the current working tree (or out of
the `rustc -Zunpretty=expanded` output of that tree) and attach the contract text
written in the template.  Nothing else of the verified functions is hand-written.

Directives
  //@ include <file>                      textual include from contracts/verus/
  //@ layout <name>                       spec decoder/encoder generated from contracts/layouts/<name>.json
  //@ stub <file>                         external_body stub from contracts/verus/stubs (shared with the prover unit)
  //@ type  <src> <modpath|-> <Name>      struct/enum definition, attributes+comments dropped
  //@ const <src> <modpath|-> <Name>
  //@ fn    <src> <modpath|-> /<impl header regex>/ <fn name>
  //@   result: r                         name the return value              (R4)
  //@   contract: stubs/<f>.rs            take requires/ensures from the shared stub file (same text the callers assume)
  //@   generics: <'nom>                  add generics to the fn (trait impl -> inherent, R6)
  //@   requires: / ensures: / decreases: contract clauses (continuation lines: //@     ...)
  //@   rules: R1 R7 ...                  token rules to apply to the body (see RULES)
  //@   closure <n>: <param|-> | <-> (o: T) requires/ensures ...>   closure contract (R3)
  //@   forloop <n>: <it> | invariant ... for-loop ghost iterator + invariant (R4)
  //@   loop <n>: invariant ... decreases while/loop contract
  //@   before "<anchor>": <spec text>    proof-only text before the unique statement anchor
  //@   after  "<anchor>": <spec text>
  //@   opaque "<anchor>" => <stub call>; statement replaced by a contracted stub (R5)
  //@ end
src is a path relative to the repo root, or the word `expanded`.
"""
import hashlib
import os
import re
import sys

sys.path.insert(0, os.path.dirname(os.path.abspath(__file__)))
from rustscan import Source, AnchorLost, mask, match_close, strip_attrs_and_docs  # noqa: E402

VERIF = os.path.dirname(os.path.dirname(os.path.abspath(__file__)))
CONTRACTS = os.path.join(VERIF, "contracts", "verus")

SPEC_ONLY = re.compile(
    r"^\s*(proof\s*\{|assert\b|assert_by\b|invariant\b|decreases\b|ensures\b|requires\b|let\s+ghost\b|broadcast\s+use\b|reveal\b)")


class TemplateError(Exception):
    pass


# ---------------------------------------------------------------------------
# Token rules.  Each is semantics-preserving by construction: the replacement is a
# wrapper whose body is the original call (see prelude.rs), or a pure re-bracketing.
RULES = {
    # R1: primitive to_be_bytes / Ipv4Addr::octets cannot be given an assume_specification in
    #     this Verus (const-generic return type) -> trusted wrapper with the std call as body.
    "R1": [(re.compile(r"\.to_be_bytes\(\)"), ".vf_to_be_bytes()"),
           (re.compile(r"\.octets\(\)"), ".vf_octets()")],
    # R2: Vec::extend(Vec) -> wrapper fn (Verus has no spec for Extend::extend)
    "R2": [(re.compile(r"\b(\w+)\.extend\((?!_from_slice)"), r"vf_extend(&mut \1, ")],
    # R7: <uN>::parse_be(i) / uN::parse(i) on primitives -> wrapper fns (no inherent impl on primitives)
    "R7": [(re.compile(r"<(u8|u16|u32|u64|u128|i8|i16|i32|i64|i128|f64)>::parse(_be)?\b"), r"vf_parse_\1"),
           (re.compile(r"\b(u8|u16|u32|u64|u128|i8|i16|i32|i64|i128|f64)::parse\("), r"vf_parse_\1("),
           (re.compile(r"<Vec<u8>>::parse(_be)?\("), r"vf_parse_vec_u8(")],
    # R12 (signature only): the boxed trait-object error type of the V9/IPFIX exporters is replaced by an opaque shim
    #      type (`?` still goes through a From conversion); error *values* are not part of any contract.
    "R12": [(re.compile(r"Box<dyn\s+std::error::Error>"), "VfError")],
    # R13: `<Vec<T>>::parse_be(i)` is nom-derive's blanket impl for Vec<T>: many0(complete(T::parse_be))(i)
    #      (nom-derive 0.10.1 src/traits.rs); inlined so that the combinator contracts apply
    "R13": [(re.compile(r"<Vec<(?!u8>)(\w+)>>::parse(_be)?\("), r"nom::multi::many0(nom::combinator::complete(<\1>::parse_be))(")],
    # R8: `<T>::parse_be` / `<T>::parse` path used as a *value* stays as is; `Self::parse_be` too.
    # R9: nom-derive "Value = E" fields expand to an immediately applied, capture-only closure
    #     `({ |__i__| Ok((__i__, E)) })(i)?`; it is beta-reduced to `(i, E)` (Verus cannot infer the
    #     closure's result type/ensures).  Pure re-bracketing: the closure has no effects and never fails.
    "R9": [(re.compile(r"\(\{\s*\|__i__\|\s*Ok\(\(__i__,\s*(.*?)\)\)\s*\}\)\(i\)\?", re.S), r"(i, \1)")],
    # R9b: nom-derive `Parse = "{ |i| E }"` fields expand to an immediately applied closure `({ |i| E })(i)?`; it is
    #      beta-reduced to `(E)?` (the parameter is the variable it is applied to), so that a closure which only exists
    #      to hand `&mut parser` to E no longer captures it.
    "R9b": [(re.compile(r"\(\{\s*\|i\|\s*(.*?)\s*\}\)\(i\)\?", re.S), r"(\1)?")],
    # R10: `e.to_string()` on a nom error -> inherent shim method of the same name (no rewrite needed);
    #      `make_error(i, K)` is nom's generic constructor == Error::new(i, K) for the default error type.
    "R10": [(re.compile(r"nom::error::make_error\("), "nom::error::Error::new(")],
    # R11: `usize::from(x)` for x: u16 -> `(x as usize)` is identical (lossless widening); Verus has no From spec.
    "R11": [(re.compile(r"\busize::from\("), "vf_usize_from(")],
    # R23: `x.into()` / `self.try_into()` -> generic wrapper fns (std's blanket Into / TryInto have no Verus specification)
    "R23": [(re.compile(r"\b((?:\w+\s*\.\s*)*\w+)\s*\.\s*into\(\)"), r"vf_into(\1)"), (re.compile(r"\b(\w+)\s*\.\s*try_into\(\)"), r"vf_try_into(\1)")],
    # R28: `M.entry(K).or_insert_with(|| V);` (statement form) -> the definition of Entry::or_insert_with with the result
    #      discarded: insert V under K only if K is absent.  K is evaluated twice (it must be a pure expression).
    "R28": [(re.compile(r"\b(\w+(?:\s*\.\s*\w+)*)\s*\.\s*entry\(([^()]*(?:\([^()]*\))?[^()]*)\)\s*\.\s*or_insert_with\(\s*\|\|\s*([^;]*?)\)\s*;", re.S),
             lambda m: "if !%s.contains_key(&%s) { %s.insert(%s, %s); }" % ("".join(m.group(1).split()), m.group(2).strip(), "".join(m.group(1).split()), m.group(2).strip(), m.group(3).strip()))],
    # R29: `M.extend(V.iter().map(|T| (K, E)));` -> `for T in V.iter() { M.insert(K, E); }` (Extend<(K, V)> for a map inserts
    #      every pair in iteration order)
    "R29": [(re.compile(r"\b(\w+(?:\s*\.\s*\w+)*)\s*\.\s*extend\(\s*([\w\.\s]+?)\s*\.\s*iter\(\)\s*\.\s*map\(\s*\|\s*(\w+)\s*\|\s*\(([^,()]+),\s*([^;]*?)\)\s*\)\s*,?\s*\)\s*;", re.S),
             lambda m: "for %s in %s.iter() { %s.insert(%s, %s); }" % (m.group(3), "".join(m.group(2).split()), "".join(m.group(1).split()), m.group(4).strip(), m.group(5).strip()))],
    # R31: `let M: BTreeMap<K, V> = R.values().cloned().collect();` / `M.extend(R.values().cloned());` (R a map of pairs)
    #      -> the loop that defines it: every value pair of R, in R's iteration order, is inserted into M (later wins)
    "R31": [(re.compile(r"let\s+(\w+)\s*:\s*(BTreeMap<[^=;]*>)\s*=\s*(\w+(?:\s*\.\s*\w+)*)\s*\.\s*values\(\)\s*\.\s*cloned\(\)\s*\.\s*collect\(\)\s*;", re.S),
             lambda m: "let mut %s: %s = BTreeMap::new(); { let mut __bi = vf_bt_iter(%s); loop { match __bi.next() { Some((_, __p)) => { %s.insert(__p.0, __p.1.clone()); } None => break, } } }" % (m.group(1), " ".join(m.group(2).split()), "".join(m.group(3).split()), m.group(1))),
            (re.compile(r"\b(\w+)\s*\.\s*extend\(\s*(\w+(?:\s*\.\s*\w+)*)\s*\.\s*values\(\)\s*\.\s*cloned\(\)\s*\)\s*;", re.S),
             lambda m: "{ let mut __bi = vf_bt_iter(%s); loop { match __bi.next() { Some((_, __p)) => { %s.insert(__p.0, __p.1.clone()); } None => break, } } }" % ("".join(m.group(2).split()), m.group(1)))],
    # R21: `v.try_into()` on a `&FieldValue` -> generic wrapper fn (std's blanket TryInto has no Verus specification)
    "R21": [(re.compile(r"\b(\w+)\s*\.\s*try_into\(\)"), r"vf_try_into(\1)")],
}


def rule_r14(body, hits):
    """R14: `let (i, X) = nom::multi::many0(ARG)(i)?;` -> `let __m0_X = ARG; let (i, X) = nom::multi::many0(__m0_X)(i)?;`
    (let-binding of a temporary, evaluation order unchanged) so that proof text can name the parser value."""
    out = body
    pos = 0
    while True:
        m = mask(out)
        mm = re.compile(r"let\s*\(\s*i\s*,\s*(\w+)\s*\)\s*=\s*nom::multi::many0\(").search(m, pos)
        if not mm:
            break
        op = mm.end() - 1
        cl = match_close(m, op)
        arg = out[op + 1:cl]
        name = "__m0_" + mm.group(1)
        rep = "let %s = %s; let (i, %s) = nom::multi::many0(%s" % (name, arg, mm.group(1), name)
        out = out[:mm.start()] + rep + out[cl:]
        pos = mm.start() + len(rep)
        hits["R14"] = hits.get("R14", 0) + 1
    return out


def rule_r15(body, hits, stub_body=None, meta=None):
    """R15: inline nom 7.1.3 `combinator::map_res(P, |x| F)(i)?` at a `let (i, X) = ...;` statement:
         let (i, X) = { let __mr_in = i; let (__mr_rest, __mr_o1) = P(__mr_in)?;
                        match ({ let x = __mr_o1; F }) { Ok(__mr_o2) => (__mr_rest, __mr_o2),
                            Err(_) => { return Err(nom::Err::Error(nom::error::Error::new(__mr_in, nom::error::ErrorKind::MapRes))); } } };
    This is the body of map_res (src/combinator/mod.rs) with the closure applied in place, so that a closure that only
    exists to hand `&mut parser` to the inner parser no longer captures it (Verus has no mutable captures)."""
    out = body
    pos = 0
    while True:
        m = mask(out)
        mm = re.compile(r"let\s*\(\s*i\s*,\s*(\w+)\s*\)\s*=\s*map_res\(").search(m, pos)
        if not mm:
            break
        op = mm.end() - 1
        cl = match_close(m, op)
        inner = out[op + 1:cl]
        mi = mask(inner)
        # split at the first top-level comma
        depth = 0
        k = 0
        while k < len(mi):
            ch = mi[k]
            if ch in "([{":
                depth += 1
            elif ch in ")]}":
                depth -= 1
            elif ch == "," and depth == 0:
                break
            k += 1
        p_arg = inner[:k].strip()
        clo = inner[k + 1:].strip()
        cm = re.match(r"\|\s*(\w+)\s*\|\s*(.*)$", clo, re.S)
        tail = re.match(r"\s*\(i\)\?\s*;", out[cl + 1:])
        if not cm or not tail:
            raise AnchorLost("R15: map_res statement not in the expected shape")
        x, f_body = cm.group(1), cm.group(2).strip()
        if stub_body:
            # the closure body is itself opaque to Verus (a closure capturing `&mut`): replaced by a contracted stub (R5)
            if meta is not None:
                meta.setdefault("opaque_statements", []).append(
                    {"fn": "map_res closure", "text": " ".join(f_body.split()),
                     "sha256": hashlib.sha256(f_body.encode()).hexdigest()[:16], "stub": stub_body})
            hits["R5"] = hits.get("R5", 0) + 1
            f_body = stub_body
        rep = ("let (i, %s) = { let __mr_in = i; let (__mr_rest, __mr_o1) = %s(__mr_in)?; "
               "match ({ let %s = __mr_o1; %s }) { Ok(__mr_o2) => (__mr_rest, __mr_o2), "
               "Err(_) => { return Err(nom::Err::Error(nom::error::Error::new(__mr_in, nom::error::ErrorKind::MapRes))); } } };"
               % (mm.group(1), p_arg, x, f_body))
        end = cl + 1 + tail.end()
        out = out[:mm.start()] + rep + out[end:]
        pos = mm.start() + len(rep)
        hits["R15"] = hits.get("R15", 0) + 1
    return out


def split_args(text):
    """split at top-level commas"""
    mi = mask(text)
    out, depth, last = [], 0, 0
    for k, ch in enumerate(mi):
        if ch in "([{":
            depth += 1
        elif ch in ")]}":
            depth -= 1
        elif ch == "," and depth == 0:
            out.append(text[last:k])
            last = k + 1
    out.append(text[last:])
    return out


def returns_to_acc(inner, wrapper):
    """closure-level `return Ok(E)` (wrapper="Ok": try_fold) / `return (E)` (fold) followed by `;` or `,` (match arm)
    -> `{ __acc = E; continue; }`; `return Err(..)` of a try_fold closure keeps its meaning (it leaves try_fold and,
    through the trailing `?`, the function).  Any other `return` is not understood."""
    out = inner
    pos = 0
    while True:
        m = mask(out)
        mm = re.compile(r"\breturn\b\s*").search(m, pos)
        if not mm:
            return out
        k = mm.end()
        if wrapper:
            if m.startswith("Err(", k):
                pos = k
                continue
            if not m.startswith(wrapper + "(", k):
                raise AnchorLost("R16: closure-level return not in the expected shape")
            op = k + len(wrapper)
            cl = match_close(m, op)
            expr = out[op + 1:cl].strip()
        else:
            if m[k] != "(":
                raise AnchorLost("R16: closure-level return not in the expected shape")
            op = k
            cl = match_close(m, op)
            expr = out[op:cl + 1]
        t = cl + 1
        while t < len(m) and m[t].isspace():
            t += 1
        if t >= len(m) or m[t] not in ";,":
            raise AnchorLost("R16: closure-level return not followed by ';' or ','")
        rep = "{ __acc = %s; continue; }" % expr + ("," if m[t] == "," else "")
        out = out[:mm.start()] + rep + out[t + 1:]
        pos = mm.start() + len(rep)


def tail_to_acc(inner, wrapper):
    """the closure's final expression `Ok(E)` (wrapper="Ok") or `(..)` (wrapper=None) -> `__acc = E;`"""
    t = inner.rstrip()
    m = mask(t)
    if not m.endswith(")"):
        return inner, 0
    # matching open parenthesis of the last ')'
    depth = 0
    k = len(m) - 1
    while k >= 0:
        if m[k] in ")]}":
            depth += 1
        elif m[k] in "([{":
            depth -= 1
            if depth == 0:
                break
        k -= 1
    if k < 0:
        return inner, 0
    if wrapper:
        pre = re.search(r"(?<![\w:])%s\s*$" % wrapper, m[:k])
        if not pre:
            return inner, 0
        expr = t[k + 1:len(t) - 1].strip()
        start = pre.start()
    else:
        expr = t[k:]
        start = k
    # must be a statement position: preceded by ';', '}' or start
    before = m[:start].rstrip()
    if before and before[-1] not in ";}{":
        return inner, 0
    return t[:start] + "__acc = %s;" % expr, 1


FOLD_HEAD = re.compile(
    r"(?:\((?P<lo>\w+)\.\.(?P<hi>\w+(?:\.\w+\([^()]*\))?)\)|(?P<recv>[A-Za-z_][\w\.]*(?:\(\))?)\s*\.iter\(\)(?P<en>\s*\.enumerate\(\))?)\s*\.(?P<m>try_fold|fold)\(")


def rule_r16(body, hits, acctype=None):
    """R16: a fold over a counted source is replaced by the definition of Iterator::(try_)fold with the closure applied
    in place.  Source: `(LO..HI)`, `RECV.iter()` or `RECV.iter().enumerate()`; method `fold(INIT, |ACC, X| B)` or
    `try_fold(INIT, |ACC, X| B)?`:
         { let mut __acc = INIT; [let __it = RECV;] let mut __k = LO|0;
           while __k < HI|__it.len() { [let X = __k | &__it[__k] | (__k, &__it[__k]);] __k += 1; let ACC = __acc; B' } __acc }
    (a counted `while`, because Verus for-loops support neither `continue` nor these iterator adapters).  In B' a
    closure-level `return Ok(E);` (`return E;` for fold) becomes `{ __acc = E; continue; }`, the closure's final
    `Ok(E)` (`E`) becomes `__acc = E;`, and `?` keeps its meaning: an error leaves try_fold and, through the trailing
    `?`, the function.  Every fold in the body is rewritten.  Needed because Verus has no specification for provided
    trait methods such as (try_)fold, nor for closures with mutable captures."""
    count = 0
    if FOLD_HEAD.search(mask(body)):
        body = mask(body, strings=False)        # comments out (they may sit between the arguments)
    while True:
        m = mask(body)
        mm = FOLD_HEAD.search(m)
        if not mm:
            break
        op = mm.end() - 1
        cl = match_close(m, op)
        args = split_args(body[op + 1:cl])
        if len(args) < 2:
            raise AnchorLost("R16: fold does not have (init, closure) arguments")
        init, clo = args[0].strip(), ",".join(args[1:]).strip().rstrip(",").strip()
        cm = re.match(r"\|(.*?)\|\s*(.*)$", clo, re.S)
        if not cm:
            raise AnchorLost("R16: fold closure not in the expected shape")
        params = split_args(cm.group(1))
        if len(params) != 2:
            raise AnchorLost("R16: fold closure must have two parameters")
        accpat, elpat = params[0].strip(), params[1].strip()
        cbody = cm.group(2).strip()
        is_try = mm.group("m") == "try_fold"
        end = cl + 1
        if is_try:
            tail = re.match(r"\s*\?", body[cl + 1:])
            if not tail:
                raise AnchorLost("R16: try_fold not followed by `?`")
            end = cl + 1 + tail.end()
        if mask(cbody).startswith("{"):
            inner = cbody[1:match_close(mask(cbody), 0)].rstrip()
            if is_try:
                inner = returns_to_acc(inner, "Ok")
                inner, n2 = tail_to_acc(inner, "Ok")
            else:
                inner = returns_to_acc(inner, None)
                inner, n2 = tail_to_acc(inner, None)
            if n2 != 1:
                raise AnchorLost("R16: closure does not end in a tuple result")
        else:
            if is_try:
                raise AnchorLost("R16: expression-bodied try_fold closure")
            inner = "__acc = %s;" % cbody
        if mm.group("lo") is not None:
            pre, lo, hi = "", mm.group("lo"), mm.group("hi")
            el = "" if elpat == "_" else "let %s = __k; " % elpat
        else:
            recv = mm.group("recv")
            pre = "let __it = %s%s; " % ("" if recv.endswith(")") else "&", recv)
            lo, hi = "0", "__it.len()"
            item = "(__k, &__it[__k])" if mm.group("en") else "&__it[__k]"
            el = "let %s = %s; " % (elpat, item)
        ty = (": " + acctype) if acctype else ""
        kty = "" if mm.group("lo") is not None else ": usize"
        rep = ("{ let mut __acc%s = %s; %slet mut __k%s = %s; while __k < %s { %s__k += 1; let %s = __acc; %s } __acc }"
               % (ty, init, pre, kty, lo, hi, el, accpat, inner))
        body = body[:mm.start()] + rep + body[end:]
        count += 1
    if not count:
        raise AnchorLost("R16: no fold found")
    hits["R16"] = hits.get("R16", 0) + count
    return body


def rule_r18(body, hits):
    """R18: `for (I, X) in RECV.iter().enumerate() { B }` -> counted while over the same elements in the same order:
         { let __en = &RECV; let mut __j: usize = 0; while __j < __en.len() { let (I, X) = (__j, &__en[__j]); __j += 1; B } }
    (Verus has no specification for Enumerate)."""
    count = 0
    while True:
        m = mask(body)
        mm = re.search(r"\bfor\s+(\([^()]*\))\s+in\s+([A-Za-z_][\w\.]*)\s*\.iter\(\)\s*\.enumerate\(\)\s*\{", m)
        if not mm:
            break
        ob = mm.end() - 1
        cb = match_close(m, ob)
        rep = ("{ let __en = &%s; let mut __j: usize = 0; while __j < __en.len() { let %s = (__j, &__en[__j]); __j += 1; %s } }"
               % (mm.group(2), body[mm.start(1):mm.end(1)], body[ob + 1:cb]))
        body = body[:mm.start()] + rep + body[cb + 1:]
        count += 1
    if not count:
        raise AnchorLost("R18: no enumerate loop found")
    hits["R18"] = hits.get("R18", 0) + count
    return body


def recv_start(m, dot):
    """start of the postfix-expression chain that ends just before position `dot` (a '.') in masked text m"""
    k = dot
    while True:
        j = k - 1
        while j >= 0 and m[j].isspace():
            j -= 1
        if j < 0:
            raise AnchorLost("R22: receiver not found")
        if m[j] in ")]":
            depth = 0
            while j >= 0:
                if m[j] in ")]}":
                    depth += 1
                elif m[j] in "([{":
                    depth -= 1
                    if depth == 0:
                        break
                j -= 1
            # a call: identifier (path) directly before the '('
            t = j
            while t > 0 and (m[t - 1].isalnum() or m[t - 1] in "_:"):
                t -= 1
            start = t
        elif m[j].isalnum() or m[j] == "_":
            t = j
            while t > 0 and (m[t - 1].isalnum() or m[t - 1] in "_:"):
                t -= 1
            start = t
        elif m[j] == "?":
            k = j
            continue
        else:
            raise AnchorLost("R22: receiver not understood")
        # continue leftwards only through a '.'
        q = start - 1
        while q >= 0 and m[q].isspace():
            q -= 1
        if q >= 0 and m[q] == ".":
            k = q
            continue
        # a leading '&' / '*' belongs to the receiver only inside parentheses, which the ')' case covers
        return start


def rule_r22(body, hits):
    """R22: Option combinators applied to a closure literal are replaced by their definitions (core::option):
         R.or_else(|| B)   -> (match R { Some(__o) => Some(__o), None => B })
         R.and_then(|v| E) -> (match R { Some(v) => E, None => None })
         R.map(|v| E)      -> (match R { Some(v) => Some(E), None => None })      (only on Option receivers: unit-specific)
    so that no closure is left (Verus would need a contract on each of them)."""
    count = 0
    while True:
        m = mask(body)
        mm = re.search(r"\.\s*(or_else|and_then|map)\(\s*\|", m)
        if not mm:
            break
        dot = mm.start()
        start = recv_start(m, dot)
        recv = body[start:dot].strip()
        op = m.index("(", dot)
        cl = match_close(m, op)
        clo = body[op + 1:cl].strip()
        cm = re.match(r"\|([^|]*)\|\s*(.*)$", clo, re.S)
        if not cm:
            raise AnchorLost("R22: closure literal expected")
        par, e = cm.group(1).strip(), cm.group(2).strip().rstrip(",").strip()
        meth = mm.group(1)
        pname, _, pty = par.partition(":")
        pname = pname.strip()
        bind = ("{ let %s: %s = %s; " % (pname, pty.strip(), pname)) if pty.strip() else ""
        unb = " }" if bind else ""
        if meth == "or_else":
            if par:
                raise AnchorLost("R22: or_else closure takes no parameter")
            rep = "(match %s { Some(__o) => Some(__o), None => %s })" % (recv, e)
        elif meth == "and_then":
            rep = "(match %s { Some(%s) => %s%s%s, None => None })" % (recv, pname, bind, e, unb)
        else:
            rep = "(match %s { Some(%s) => %sSome(%s)%s, None => None })" % (recv, pname, bind, e, unb)
        body = body[:start] + rep + body[cl + 1:]
        count += 1
    if not count:
        raise AnchorLost("R22: no Option combinator found")
    hits["R22"] = hits.get("R22", 0) + count
    return body


def rule_r24(body, hits):
    """R24: `RECV.iter().flat_map(|X| E).collect()` (collecting into a Vec; E evaluates to a Vec) is replaced by the
    definition of flat_map + collect:
         { let __fm = &RECV; let mut __out = Vec::new(); let mut __q: usize = 0;
           while __q < __fm.len() { let X = &__fm[__q]; __q += 1; let __v = E; vf_extend(&mut __out, __v); } __out }"""
    m = mask(body)
    mm = re.search(r"\.\s*iter\(\)\s*\.\s*flat_map\(\s*\|", m)
    if not mm:
        raise AnchorLost("R24: no iter().flat_map(..) found")
    start = recv_start(m, mm.start())
    recv = body[start:mm.start()].strip()
    op = m.index("(", m.index("flat_map", mm.start()))
    cl = match_close(m, op)
    cm = re.match(r"\s*\|([^|]*)\|\s*(.*)$", body[op + 1:cl], re.S)
    tail = re.match(r"\s*\.\s*collect\(\)", m[cl + 1:])
    if not cm or not tail:
        raise AnchorLost("R24: flat_map(|x| E).collect() expected")
    rep = ("{ let __fm = &%s; let mut __out = Vec::new(); let mut __q: usize = 0; while __q < __fm.len() "
           "{ let %s = &__fm[__q]; __q += 1; let __v = %s; vf_extend(&mut __out, __v); } __out }"
           % (recv, cm.group(1).strip(), cm.group(2).strip().rstrip(",").strip()))
    hits["R24"] = hits.get("R24", 0) + 1
    return body[:start] + rep + body[cl + 1 + tail.end():]


def rule_r25(body, hits):
    """R25: `RECV.iter().any(|X| E)` is replaced by the definition of Iterator::any (short-circuiting search):
         { let __an = RECV; let mut __a: usize = 0; let mut __found = false;
           while __a < __an.len() { let X = &__an[__a]; __a += 1; if E { __found = true; break; } } __found }"""
    m = mask(body)
    mm = re.search(r"\.\s*iter\(\)\s*\.\s*any\(\s*\|", m)
    if not mm:
        raise AnchorLost("R25: no iter().any(..) found")
    start = recv_start(m, mm.start())
    recv = body[start:mm.start()].strip()
    op = m.index("(", m.index("any", mm.start()))
    cl = match_close(m, op)
    cm = re.match(r"\s*\|([^|]*)\|\s*(.*)$", body[op + 1:cl], re.S)
    if not cm:
        raise AnchorLost("R25: any(|x| E) expected")
    rep = ("{ let __an = %s%s; let mut __a: usize = 0; let mut __found = false; while __a < __an.len() "
           "{ let %s = &__an[__a]; __a += 1; if %s { __found = true; break; } } __found }"
           % ("" if recv.endswith(")") else "&", recv, cm.group(1).strip(), cm.group(2).strip().rstrip(",").strip()))
    hits["R25"] = hits.get("R25", 0) + 1
    return body[:start] + rep + body[cl + 1:]


def rule_r26(body, hits):
    """R26: `RECV.iter().map(|X| E).collect()` (collecting into a Vec) is replaced by the definition of map + collect:
         { let __mp = &RECV; let mut __out = Vec::new(); let mut __m: usize = 0;
           while __m < __mp.len() { let X = &__mp[__m]; __m += 1; __out.push(E); } __out }"""
    m = mask(body)
    mm = re.search(r"\.\s*iter\(\)\s*\.\s*map\(\s*\|", m)
    if not mm:
        raise AnchorLost("R26: no iter().map(..) found")
    start = recv_start(m, mm.start())
    recv = "".join(body[start:mm.start()].split())
    op = m.index("(", m.index("map", mm.start()))
    cl = match_close(m, op)
    cm = re.match(r"\s*\|([^|]*)\|\s*(.*)$", body[op + 1:cl], re.S)
    tail = re.match(r"\s*\.\s*collect\(\)", m[cl + 1:])
    if not cm or not tail:
        raise AnchorLost("R26: map(|x| E).collect() expected")
    rep = ("{ let __mp = &%s; let mut __out = Vec::new(); let mut __m: usize = 0; while __m < __mp.len() "
           "{ let %s = &__mp[__m]; __m += 1; __out.push(%s); } __out }"
           % (recv, cm.group(1).strip(), cm.group(2).strip().rstrip(",").strip()))
    hits["R26"] = hits.get("R26", 0) + 1
    return body[:start] + rep + body[cl + 1 + tail.end():]


def rule_r27(body, hits, idxs):
    """R27: the n-th `for PAT in X.iter() { B }` (X a BTreeMap) is replaced by the definition of `for`:
         { let mut __bi = vf_bt_iter(X); loop { match __bi.next() { Some(PAT) => { B } None => break, } } }
    `vf_bt_iter` is a wrapper whose body is `X.iter()`; its contract ties the iterator to the map's iteration-order
    sequence (vstd specifies BTreeMap::iter() as an enumeration without an order; std documents ascending key order)."""
    for n in sorted(idxs, reverse=True):
        fl = loops(body, ("for",))
        if n >= len(fl):
            raise AnchorLost("R27: for-loop #%d not found" % n)
        ks, ob = fl[n]
        m = mask(body)
        hm = re.match(r"for\s+(.*?)\s+in\s+(.*?)\s*\.\s*iter\(\)\s*$", body[ks:ob].rstrip(), re.S)
        if not hm:
            raise AnchorLost("R27: for-loop #%d is not `for PAT in X.iter()`" % n)
        cb = match_close(m, ob)
        rep = ("{ let mut __bi = vf_bt_iter(%s); loop { match __bi.next() { Some(%s) => {%s} None => break, } } }"
               % (hm.group(2).strip(), hm.group(1).strip(), body[ob + 1:cb]))
        body = body[:ks] + rep + body[cb + 1:]
        hits["R27"] = hits.get("R27", 0) + 1
    return body


def rule_r30(body, hits):
    """R30: Result combinators applied to a closure literal are replaced by their definitions (core::result):
         R.map(|v| E)     -> (match R { Ok(v) => Ok(E), Err(__e) => Err(__e) })
         R.map_err(|e| E) -> (match R { Ok(__o) => Ok(__o), Err(e) => Err(E) })
    (unit-specific: only for units whose `.map(` receivers are Results).  A function that does not use them (a developer
    wrote the `match` by hand) is left as it is, so both shapes verify against the same contract."""
    count = 0
    while True:
        m = mask(body)
        mm = re.search(r"\.\s*(map_err|map)\(\s*\|", m)
        if not mm:
            break
        dot = mm.start()
        start = recv_start(m, dot)
        recv = body[start:dot].strip()
        op = m.index("(", dot)
        cl = match_close(m, op)
        clo = body[op + 1:cl].strip()
        cm = re.match(r"\|(.*?)\|\s*(.*)$", clo, re.S)
        if not cm:
            raise AnchorLost("R30: closure literal expected")
        par, e = cm.group(1).strip(), cm.group(2).strip().rstrip(",").strip()
        if mm.group(1) == "map":
            rep = "(match %s { Ok(%s) => Ok(%s), Err(__e) => Err(__e) })" % (recv, par, e)
        else:
            rep = "(match %s { Ok(__o) => Ok(__o), Err(%s) => Err(%s) })" % (recv, par, e)
        body = body[:start] + rep + body[cl + 1:]
        count += 1
    hits["R30"] = hits.get("R30", 0) + count
    return body


def apply_rules(body, rules, hits):
    for r in rules:
        if r not in RULES:
            raise TemplateError("unknown rule " + r)
        for rx, rep in RULES[r]:
            body, n = rx.subn(rep, body)
            hits[r] = hits.get(r, 0) + n
    return body


def anchor_regex(anchor):
    parts = [re.escape(p) for p in anchor.split()]
    return re.compile(r"\s*".join(parts))


def find_unique(body, anchor):
    ms = list(anchor_regex(anchor).finditer(body))
    if len(ms) != 1:
        raise AnchorLost("anchor %r found %d times" % (anchor, len(ms)))
    return ms[0]


def closures(body):
    """Yield (start, params_end, body_start, body_end) for closures, in source order."""
    m = mask(body)
    out = []
    k = 0
    n = len(m)
    while k < n:
        if m[k] == "|":
            # previous significant char
            j = k - 1
            while j >= 0 and m[j].isspace():
                j -= 1
            prev = m[j] if j >= 0 else "("
            prevword = re.search(r"(\w+)\s*$", m[:k])
            is_start = prev in "(,={;" or (prevword and prevword.group(1) in ("move", "return"))
            if not is_start:
                k += 1
                continue
            if m[k + 1] == "|":
                pe = k + 1
            else:
                pe = m.find("|", k + 1)
            b = pe + 1
            while m[b].isspace():
                b += 1
            if m.startswith("->", b):
                # already annotated: skip to '{'
                b = m.find("{", b)
            if m[b] == "{":
                e = match_close(m, b) + 1
            else:
                depth = 0
                e = b
                while e < n:
                    ch = m[e]
                    if ch in "([{":
                        depth += 1
                    elif ch in ")]}":
                        if depth == 0:
                            break
                        depth -= 1
                    elif ch == "," and depth == 0:
                        break
                    elif ch == ";" and depth == 0:
                        break
                    e += 1
            out.append((k, pe + 1, b, e))
            k = pe + 1
        else:
            k += 1
    return out


def loops(body, kinds):
    """(kw_start, open_brace) for `for`/`while`/`loop` statements in source order."""
    m = mask(body)
    res = []
    for mm in re.finditer(r"\b(for|while|loop)\b", m):
        if mm.group(1) not in kinds:
            continue
        # `for` in `impl X for Y` / HRTB does not occur inside fn bodies we extract
        k = mm.end()
        depth = 0
        while k < len(m):
            ch = m[k]
            if ch in "([":
                depth += 1
            elif ch in ")]":
                depth -= 1
            elif ch == "{" and depth == 0:
                # struct-literal braces cannot appear in loop headers without parens in Rust
                break
            k += 1
        res.append((mm.start(), k))
    return res


class Extractor:
    def __init__(self, repo, expanded_provider=None):
        self.repo = repo
        self.expanded_provider = expanded_provider
        self._src = {}
        self.meta = {"functions": [], "types": [], "rule_hits": {}, "dropped": [
            "attributes (#[derive], #[nom], #[serde], #[inline]) and comments on extracted items",
            "bodies of all callees (replaced by external_body stubs carrying contracts)"]}

    def source(self, src):
        if src not in self._src:
            if src == "expanded":
                if self.expanded_provider is None:
                    raise TemplateError("expanded source requested but no provider")
                self._src[src] = Source(self.expanded_provider(), "expanded")
            elif src.startswith("lifted:"):
                # R17: closure-converted form of a many0(complete(closure)) expression, rebuilt from /repo's expansion
                # and the nom source pinned by Cargo.lock (tools/lift.py)
                import lift
                if lift.LIFTS.get(src.split(":", 1)[1], {}).get("kind") == "nomfn":
                    txt, lmeta = lift.build(src.split(":", 1)[1], self.repo, "")      # nom's own source only
                elif self.expanded_provider is None:
                    raise TemplateError("lifted source requested but no expanded provider")
                else:
                    txt, lmeta = lift.build(src.split(":", 1)[1], self.repo, self.expanded_provider())
                self.meta.setdefault("lifts", []).append(lmeta)
                self.meta["rule_hits"]["R17"] = self.meta["rule_hits"].get("R17", 0) + 1
                self._src[src] = Source(txt, src)
            else:
                p = os.path.join(self.repo, src)
                if not os.path.exists(p):
                    raise AnchorLost("file %s missing" % src)
                self._src[src] = Source(open(p).read(), src)
        return self._src[src]

    def scope(self, s, modpath):
        rng = s.whole()
        if s.label == "expanded":
            pass
        if modpath != "-":
            for name in modpath.split("::"):
                rng = s.find_mod(rng, name)
        return rng

    # ------------------------------------------------------------------
    def do_type(self, args):
        src, modpath, name = args[:3]
        s = self.source(src)
        a, b = s.find_type(self.scope(s, modpath), name)
        raw = s.text[a:b]
        txt = strip_attrs_and_docs(raw)
        if not txt.lstrip().startswith("pub"):
            txt = "pub " + txt.lstrip()
        # `Copy` types stay `Copy` (field reads through references move otherwise); every other derive is dropped
        pre = s.masked[max(0, a - 600):a]
        k = pre.rfind("}")
        k2 = pre.rfind(";")
        attrs = s.text[max(0, a - 600):a][max(k, k2) + 1:]
        if "ord" in args[3:] and re.search(r"derive\([^)]*\bOrd\b", attrs):
            # a map key: the derived comparison traits are kept as well (only if /repo derives them)
            txt = "#[derive(PartialEq, Eq, PartialOrd, Ord, Clone, Copy)]\n" + txt
        elif re.search(r"derive\([^)]*\bCopy\b", attrs) and "nocopy" not in args[3:]:
            txt = "#[derive(Clone, Copy)]\n" + txt
        self.meta["types"].append({"name": name, "src": src, "sha256": hashlib.sha256(raw.encode()).hexdigest()[:16]})
        return txt + "\n"

    def do_stub(self, rel):
        """external_body stub whose signature+contract live in a shared file; the unit that proves
        the function takes its contract from the same file (`contract:` option), so they cannot drift."""
        txt = open(os.path.join(CONTRACTS, rel)).read().rstrip()
        self.meta.setdefault("stubs", []).append(rel)
        return "#[verifier::external_body]\n" + txt + "\n{ unimplemented!() }\n"

    @staticmethod
    def contract_of(rel):
        txt = open(os.path.join(CONTRACTS, rel)).read()
        lines = [l for l in txt.split("\n") if not l.strip().startswith("//")]
        txt = "\n".join(lines)
        m = re.search(r"^\s*(requires|ensures|decreases)\b", txt, re.M)
        if not m:
            raise TemplateError("no contract clauses in " + rel)
        rn = re.search(r"->\s*\(\s*(\w+)\s*:", txt[:m.start()])
        return (rn.group(1) if rn else None), txt[m.start():].rstrip() + "\n"

    def do_const(self, args, alias=False):
        src, modpath, name = args[:3]
        s = self.source(src)
        a, b = (s.find_alias if alias else s.find_const)(self.scope(s, modpath), name)
        self.meta.setdefault("declared_consts", []).append(name)
        txt = s.text[a:b]
        if not txt.startswith("pub"):
            txt = "pub " + txt
        return txt + "\n"

    def do_fn(self, header, opts):
        m = re.match(r"(\S+)\s+(\S+)\s+/(.*)/\s+(\w+)\s*$", header)
        if not m:
            raise TemplateError("bad fn directive: " + header)
        src, modpath, impl_rx, fname = m.groups()
        s = self.source(src)
        rng = self.scope(s, modpath)
        if impl_rx != "-":
            fs, bo, bc = s.find_fn_in_impls(rng, impl_rx, fname)
        else:
            fs, bo, bc = s.find_fn(rng, fname)
        sig = s.text[fs:bo].rstrip()
        body = s.text[bo:bc + 1]
        raw = s.text[fs:bc + 1]
        hits = {}
        contract = []
        result_name = None
        # `onlystmt "<anchor>": <tail>` + `sig: <signature>`: ONE statement of the function (the one an R5 stub stands for
        # in the unit of the whole function) becomes a function of its own, so that the stub's contract is discharged too
        for key, val in opts:
            if key.startswith("onlystmt "):
                anchor = key.partition(" ")[2].strip().strip('"')
                nth = [int(v) for kk, v in opts if kk == "nth"]
                if nth:
                    ms_ = list(anchor_regex(anchor).finditer(body))
                    if nth[0] >= len(ms_):
                        raise AnchorLost("anchor %r: occurrence #%d not found" % (anchor, nth[0]))
                    mm = ms_[nth[0]]
                else:
                    mm = find_unique(body, anchor)
                mk = mask(body)
                k = mm.start()
                depth = 0
                if re.match(r"(for|while|loop|if)\b", mk[k:]):
                    while not (mk[k] == "{" and depth == 0):
                        if mk[k] in "([":
                            depth += 1
                        elif mk[k] in ")]":
                            depth -= 1
                        k += 1
                    k = match_close(mk, k)
                else:
                    while True:
                        ch = mk[k]
                        if ch in "([{":
                            depth += 1
                        elif ch in ")]}":
                            depth -= 1
                        elif ch == ";" and depth == 0:
                            break
                        k += 1
                stmt = body[mm.start():k + 1]
                sg = [v for kk, v in opts if kk == "sig"]
                if not sg:
                    raise TemplateError("onlystmt needs sig:")
                sig = sg[0].strip()
                body = "{\n        " + stmt + "\n        " + val.strip() + "\n    }"
                raw = stmt
                hits["R5-lift"] = hits.get("R5-lift", 0) + 1
        # constants of the same file/module referenced by the function are part of its meaning (a missing const in a
        # `match` pattern would silently become a catch-all binding): pull their definitions in verbatim
        for ident in sorted(set(re.findall(r"\b[A-Z][A-Z0-9_]{2,}\b", mask(raw)))):
            if ident in self.meta.get("declared_consts", []) or ident in [c[0] for c in self.meta.get("auto_consts", [])]:
                continue
            try:
                ca, cb = s.find_const(self.scope(s, modpath), ident)
            except AnchorLost:
                continue
            ctext = s.text[ca:cb]
            self.meta.setdefault("auto_consts", []).append((ident, ctext if ctext.startswith("pub") else "pub " + ctext))
        contract_block = ""
        for key, val in opts:
            if key == "result":
                result_name = val.strip()
            if key == "contract":
                rn, contract_block = self.contract_of(val.strip())
                result_name = rn or result_name
        # ---- signature
        if result_name:
            msig = mask(sig)
            arrow = msig.rfind("->")
            if arrow < 0:
                raise TemplateError("result: given but fn %s returns ()" % fname)
            ret = sig[arrow + 2:].strip()
            wh = re.search(r"\bwhere\b", mask(ret))
            where = ""
            if wh:
                where = " " + ret[wh.start():]
                ret = ret[:wh.start()].strip()
            sig = sig[:arrow] + "-> (%s: %s)%s" % (result_name, ret, where)
        for key, val in opts:
            if key == "generics":
                sig = re.sub(r"\bfn\s+%s\b(?!\s*<)" % fname, "fn %s%s" % (fname, val.strip()), sig, count=1)
        for key, val in opts:
            if key == "mutparam":
                # R19: `mut x: T` parameter -> parameter `x__in: T` and a local `let mut x = x__in;`
                # (inside `ensures`, Verus resolves a `mut` parameter to its final value)
                pn = val.strip()
                sig, n = re.subn(r"\bmut\s+%s\s*:" % re.escape(pn), "%s__in:" % pn, sig, count=1)
                if n != 1:
                    raise AnchorLost("fn %s: no `mut %s` parameter" % (fname, pn))
                body = "{ let mut %s = %s__in;" % (pn, pn) + body[1:]
                hits["R19"] = hits.get("R19", 0) + 1
        # R17 (call side): the n-th `many0(complete(..))(ARG)` expression is replaced by a call of its closure-converted
        # form (tools/lift.py; the lifted functions are extracted from `lifted:<name>` in a unit of their own)
        r17 = sorted([(int(k.split()[1]), v.strip()) for k, v in opts if k.startswith("r17call ")], reverse=True)
        for n17, call in r17:
            mb = mask(body)
            ms = list(re.finditer(r"\bmany0\(\s*complete\(", mb))
            if n17 >= len(ms):
                raise AnchorLost("fn %s: many0(complete(..)) #%d not found" % (fname, n17))
            o1 = mb.index("(", ms[n17].start())
            c1 = match_close(mb, o1)
            am = re.match(r"\s*\(\s*\w+\s*\)", mb[c1 + 1:])
            if not am:
                raise AnchorLost("fn %s: many0(..) #%d not applied directly" % (fname, n17))
            stmt = body[ms[n17].start():c1 + 1 + am.end()]
            self.meta.setdefault("opaque_statements", []).append(
                {"fn": fname, "text": " ".join(stmt.split()),
                 "sha256": hashlib.sha256(stmt.encode()).hexdigest()[:16], "stub": call})
            body = body[:ms[n17].start()] + call + body[c1 + 1 + am.end():]
            hits["R17"] = hits.get("R17", 0) + 1
        for key, val in opts:
            if key == "prerules":
                body = apply_rules(body, [r for r in val.split() if r not in ("R14", "R15", "R16", "R18", "R22", "R24", "R25", "R26", "R27", "R30")], hits)
                if "R16" in val.split():
                    at = [v for k, v in opts if k == "acctype"]
                    body = rule_r16(body, hits, at[0].strip() if at else None)
                if "R18" in val.split():
                    body = rule_r18(body, hits)
                if "R22" in val.split():
                    body = rule_r22(body, hits)
                if "R24" in val.split():
                    body = rule_r24(body, hits)
                if "R25" in val.split():
                    body = rule_r25(body, hits)
                if "R26" in val.split():
                    body = rule_r26(body, hits)
                if "R30" in val.split():
                    body = rule_r30(body, hits)
                if "R27" in val.split():
                    bt = [v for k, v in opts if k == "btfor"]
                    body = rule_r27(body, hits, [int(x) for x in (bt[0].split() if bt else ["0"])])
                if "R14" in val.split():
                    body = rule_r14(body, hits)
                if "R15" in val.split():
                    sb = [v for k, v in opts if k == "mapresbody"]
                    body = rule_r15(body, hits, sb[0].strip() if sb else None, self.meta)
        # ---- body edits, applied from the end so offsets stay valid
        edits = []  # (pos_start, pos_end, replacement)
        cl = None
        fl = None
        wl = None
        for key, val in opts:
            if key in ("requires", "ensures", "decreases"):
                contract.append((key, val.strip().rstrip(",")))
            elif key in ("rules", "prerules", "mapresbody", "acctype", "mutparam", "sig", "btfor", "nth") or key.startswith(("r17call ", "onlystmt ")):
                pass
            elif key.startswith(("closure ", "closureopt ")):
                if cl is None:
                    cl = closures(body)
                n = int(key.split()[1])
                if n >= len(cl):
                    if key.startswith("closureopt "):
                        continue        # the closure this contract is for is optional (e.g. an identity map)
                    raise AnchorLost("fn %s: closure #%d not found (%d closures)" % (fname, n, len(cl)))
                st, pe, bs, be = cl[n]
                pname, _, ctr = val.partition("|")
                pname = pname.strip()
                orig_params = body[st + 1:pe - 1].strip()
                cbody = body[bs:be]
                if pname == "-":
                    new_params = orig_params
                    pre = ""
                else:
                    new_params = pname
                    pre = "let %s = %s; " % (orig_params, pname.split(":")[0].strip())
                    hits["R3"] = hits.get("R3", 0) + 1
                rep = "|%s| %s { %s%s }" % (new_params, ctr.strip(), pre, cbody)
                edits.append((st, be, rep))
            elif key.startswith("forloop "):
                if fl is None:
                    fl = loops(body, ("for",))
                n = int(key.split()[1])
                if n >= len(fl):
                    raise AnchorLost("fn %s: for-loop #%d not found" % (fname, n))
                ks, ob = fl[n]
                itname, _, inv = val.partition("|")
                hdr = body[ks:ob]
                mm = re.match(r"for\s+(.*?)\s+in\s+", hdr, re.S)
                if not mm:
                    raise AnchorLost("for header not understood: " + hdr)
                newhdr = hdr[:mm.end()] + itname.strip() + ": " + hdr[mm.end():].rstrip() + "\n" + inv.strip() + "\n"
                edits.append((ks, ob, newhdr))
                hits["R4"] = hits.get("R4", 0) + 1
            elif key.startswith("opaquefor "):
                # R5 on the n-th for-loop (whole loop statement replaced by a contracted stub call)
                if fl is None:
                    fl = loops(body, ("for",))
                n = int(key.split()[1])
                if n >= len(fl):
                    raise AnchorLost("fn %s: for-loop #%d not found" % (fname, n))
                ks, ob = fl[n]
                ce = match_close(mask(body), ob)
                stmt = body[ks:ce + 1]
                edits.append((ks, ce + 1, val.strip()))
                hits["R5"] = hits.get("R5", 0) + 1
                self.meta.setdefault("opaque_statements", []).append(
                    {"fn": fname, "text": " ".join(stmt.split()),
                     "sha256": hashlib.sha256(stmt.encode()).hexdigest()[:16], "stub": val.strip()})
            elif key.startswith(("beforefor ", "forstart ", "forend ", "afterfor ")):
                if fl is None:
                    fl = loops(body, ("for",))
                kind, n = key.split()
                n = int(n)
                if n >= len(fl):
                    raise AnchorLost("fn %s: for-loop #%d not found" % (fname, n))
                if not SPEC_ONLY.match(val):
                    raise TemplateError("inserted text must be spec-only: " + val[:40])
                ks, ob = fl[n]
                if kind == "beforefor":
                    pos = ks
                elif kind == "forstart":
                    pos = ob + 1
                elif kind == "afterfor":
                    pos = match_close(mask(body), ob) + 1
                else:
                    pos = match_close(mask(body), ob)
                edits.append((pos, pos, " " + val.strip() + " "))
            elif key.startswith(("loopstart ", "loopend ", "beforeloop ", "afterloop ")):
                # structural anchors (robust against edits of the statements inside the loop)
                if wl is None:
                    wl = loops(body, ("while", "loop"))
                kind, n = key.split()
                n = int(n)
                if n >= len(wl):
                    raise AnchorLost("fn %s: loop #%d not found" % (fname, n))
                if not SPEC_ONLY.match(val):
                    raise TemplateError("inserted text must be spec-only: " + val[:40])
                ks, ob = wl[n]
                pos = ks if kind == "beforeloop" else (ob + 1 if kind == "loopstart" else match_close(mask(body), ob))
                if kind == "afterloop":
                    pos += 1
                edits.append((pos, pos, " " + val.strip() + " "))
            elif key.startswith("loop "):
                if wl is None:
                    wl = loops(body, ("while", "loop"))
                n = int(key.split()[1])
                if n >= len(wl):
                    raise AnchorLost("fn %s: loop #%d not found" % (fname, n))
                ks, ob = wl[n]
                edits.append((ob, ob, "\n" + val.strip() + "\n"))
            elif key == "bodystart":
                if not SPEC_ONLY.match(val):
                    raise TemplateError("inserted text must be spec-only: " + val[:40])
                pos = body.index("{") + 1
                edits.append((pos, pos, " " + val.strip() + " "))
            elif key.startswith("before ") or key.startswith("after "):
                which, _, anchor = key.partition(" ")
                anchor = anchor.strip().strip('"')
                if not SPEC_ONLY.match(val):
                    raise TemplateError("inserted text must be spec-only: " + val[:40])
                mm = find_unique(body, anchor)
                pos = mm.start() if which == "before" else mm.end()
                edits.append((pos, pos, " " + val.strip() + " "))
            elif key.startswith("opaque "):
                anchor = key.partition(" ")[2].strip().strip('"')
                mm = find_unique(body, anchor)
                mk = mask(body)
                if re.match(r"(for|while|loop|if)\b", mk[mm.start():]):
                    # a block statement: extends to the brace that closes its body
                    k = mm.start()
                    depth = 0
                    while not (mk[k] == "{" and depth == 0):
                        if mk[k] in "([":
                            depth += 1
                        elif mk[k] in ")]":
                            depth -= 1
                        k += 1
                    k = match_close(mk, k)
                else:
                    # statement extends to the next ';' at depth 0
                    k = mm.start()
                    depth = 0
                    while True:
                        ch = mk[k]
                        if ch in "([{":
                            depth += 1
                        elif ch in ")]}":
                            depth -= 1
                        elif ch == ";" and depth == 0:
                            break
                        k += 1
                stmt = body[mm.start():k + 1]
                edits.append((mm.start(), k + 1, val.strip()))
                hits["R5"] = hits.get("R5", 0) + 1
                self.meta.setdefault("opaque_statements", []).append(
                    {"fn": fname, "text": " ".join(stmt.split()),
                     "sha256": hashlib.sha256(stmt.encode()).hexdigest()[:16], "stub": val.strip()})
        for key, val in opts:
            if key == "track":
                # ghost offset tracking for nom-derive straight-line parsers: around every
                # `let (i, X) = <parser>(i)?;` record how far `i` has advanced inside `orig`
                # (spec-only insertions; explicit lemma calls instead of a quadratic broadcast lemma)
                orig = val.strip()
                mk = mask(body)
                first = True
                for mm in re.finditer(r"let\s*\(\s*i\s*,", mk):
                    k = mm.start()
                    depth = 0
                    while True:
                        ch = mk[k]
                        if ch in "([{":
                            depth += 1
                        elif ch in ")]}":
                            depth -= 1
                        elif ch == ";" and depth == 0:
                            break
                        k += 1
                    if re.search(r"multi::|many0|map_res|complete\(", body[mm.start():k]):
                        break        # combinator steps are handled by their own lemmas; offsets after them are not tracked
                    pre = "let ghost __p = i@; "
                    if first:
                        pre = "let ghost mut __off: int = 0; proof { assert(i@ =~= %s@.subrange(0, %s@.len() as int)); } " % (orig, orig) + pre
                        first = False
                    edits.append((mm.start(), mm.start(), pre))
                    edits.append((k + 1, k + 1, " proof { lemma_track(%s@, __off, __p, i@); __off = __off + (__p.len() - i@.len()); } " % orig))
                hits["track"] = hits.get("track", 0) + 1
        # overlapping edits are a template error
        edits.sort(key=lambda e: (e[0], e[1]))
        for (a1, b1, _), (a2, b2, _) in zip(edits, edits[1:]):
            if a2 < b1:
                raise TemplateError("overlapping edits in fn %s" % fname)
        for a, b, rep in reversed(edits):
            body = body[:a] + rep + body[b:]
        for key, val in opts:
            if key == "rules":
                body = apply_rules(body, val.split(), hits)
                sig = apply_rules(sig, [r for r in val.split() if r in ("R12",)], hits)
        for k, v in hits.items():
            self.meta["rule_hits"][k] = self.meta["rule_hits"].get(k, 0) + v
        mraw = mask(raw)
        callees = sorted(set(re.findall(r"(?<![A-Za-z_0-9:])((?:[A-Za-z_][A-Za-z_0-9]*::)*[A-Za-z_][A-Za-z_0-9]*)\s*(?:::\s*<[^>]*>\s*)?\(", mraw)) |
                         set(m_ + "!" for m_ in re.findall(r"\b([A-Za-z_][A-Za-z_0-9]*)!", mraw)))
        self.meta["functions"].append({
            "callees": callees, "closures": len(closures(body)),      # closures left after the rewrite rules: what the verifier sees
            "fn": fname, "src": src, "impl": impl_rx, "mod": modpath,
            "sha256": hashlib.sha256(raw.encode()).hexdigest()[:16],
            "lines": raw.count("\n") + 1, "rules": hits})
        ctext = ""
        for kind in ("requires", "ensures", "decreases"):
            cl_ = [v for k, v in contract if k == kind]
            if cl_:
                ctext += "    %s\n" % kind + "".join("        %s,\n" % v for v in cl_)
        if contract_block and ctext:
            # shared contract (what callers assume) + extra ensures proved on top of it
            extra = [v for k, v in contract if k == "ensures"]
            if len(extra) != len(contract) or "decreases" in contract_block or "ensures" not in contract_block:
                raise TemplateError("fn %s: only extra ensures may be combined with contract: file" % fname)
            contract_block = contract_block.rstrip() + "\n" + "".join("        %s,\n" % v for v in extra)
            ctext = ""
        tail = impl_rx.rsplit(" for ", 1)[-1]
        owner = re.findall(r"[A-Za-z_][A-Za-z_0-9]*", tail)
        owner = owner[-1] if owner and impl_rx != "-" else ""
        label = (owner + "::" if owner else "") + fname
        self.meta["functions"][-1]["label"] = label
        return "/*@uc:%s*/ " % label + sig + "\n" + (contract_block or ctext) + body + "\n"

    # ------------------------------------------------------------------
    def expand(self, path, depth=0):
        if depth > 8:
            raise TemplateError("include depth")
        lines = open(path).read().split("\n")
        out = []
        i = 0
        while i < len(lines):
            ln = lines[i]
            st = ln.strip()
            if not st.startswith("//@"):
                out.append(ln)
                i += 1
                continue
            d = st[3:].strip()
            if d.startswith("include "):
                parts = d.split()
                sub = self.expand(os.path.join(CONTRACTS, parts[1]), depth + 1)
                for kv in parts[2:]:      # parameters: K=V replaces @K@ in the included text
                    k, _, v = kv.partition("=")
                    sub = sub.replace("@%s@" % k, v)
                out.append(sub)
            elif d.startswith("layout "):
                import layouts
                out.append(layouts.gen(d.split()[1], "+lemmas" in d.split(), "+append" in d.split()))
                self.meta.setdefault("layouts", []).append(d.split()[1])
            elif d.startswith("stub "):
                out.append(self.do_stub(d.split()[1]))
            elif d.startswith("type "):
                out.append(self.do_type(d.split()[1:]))
            elif d.startswith("const "):
                out.append(self.do_const(d.split()[1:]))
            elif d.startswith("alias "):
                out.append(self.do_const(d.split()[1:], alias=True))
            elif d.startswith("fn "):
                header = d[3:]
                opts = []
                i += 1
                while True:
                    if i >= len(lines):
                        raise TemplateError("unterminated fn directive in " + path)
                    s2 = lines[i].strip()
                    if not s2.startswith("//@"):
                        raise TemplateError("non-directive line inside fn directive: " + s2)
                    d2 = s2[3:]
                    if d2.strip() == "end":
                        break
                    mk = re.match(r"\s{0,3}((?:closureopt|closure|forloop|opaquefor|beforefor|forstart|forend|afterfor|loopstart|loopend|beforeloop|afterloop|loop|r17call)\s+\d+|before\s+\"[^\"]*\"|after\s+\"[^\"]*\"|opaque\s+\"[^\"]*\"|onlystmt\s+\"[^\"]*\"|\w+):(.*)$", d2)
                    if mk and not d2.startswith("     "):
                        opts.append([mk.group(1), mk.group(2)])
                    else:
                        if not opts:
                            raise TemplateError("continuation without key: " + d2)
                        opts[-1][1] += "\n        " + d2.strip()
                    i += 1
                out.append(self.do_fn(header, [(k, v) for k, v in opts]))
            elif d.startswith("#"):
                pass
            else:
                raise TemplateError("unknown directive: " + d)
            i += 1
        return "\n".join(out)


def generate(unit_template, repo, expanded_provider=None):
    ex = Extractor(repo, expanded_provider)
    text = ex.expand(unit_template)
    ac = ex.meta.get("auto_consts", [])
    if ac:
        block = "verus! {\n" + "\n".join(c[1] for c in ac) + "\n}\n"
        text = text.replace("\nfn main() {}", "\n" + block + "fn main() {}", 1)
        ex.meta["auto_consts"] = [c[0] for c in ac]
    return text, ex.meta


if __name__ == "__main__":
    t, meta = generate(sys.argv[1], sys.argv[2] if len(sys.argv) > 2 else "/repo",
                       (lambda: open(sys.argv[3]).read()) if len(sys.argv) > 3 else None)
    sys.stdout.write(t)
    sys.stderr.write(repr(meta) + "\n")
