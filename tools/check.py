#!/usr/bin/env python3
"""check.py -- decide one property of properties.jsonl for the current /repo working tree.

  check.py <PROPERTY> [--tier quick|thorough] [--repo DIR] [--update-ledger] [--only UNIT]

exit 0  every obligation of the property that the ledger records as discharged on the unchanged
        tree is discharged again (known findings are printed as KNOWN-FINDING lines)
exit 1  + "VIOLATION property=<id> replay=<path>": a ledger obligation now fails as a *logical*
        obligation (Verus: post/precondition, invariant, assertion, termination, overflow;
        Kani: a FAILED check that is not an unwinding assertion)
exit 2  undecided: lost anchor, unsupported construct, rustc error in a generated file, resource
        limit, time-out.  Never an alarm.
Evidence is written to /verif/evidence/<PROPERTY>.json on every run.
"""
import argparse
import concurrent.futures as cf
import hashlib
import json
import os
import re
import shutil
import subprocess
import sys
import time
import tomllib

HERE = os.path.dirname(os.path.abspath(__file__))
VERIF = os.path.dirname(HERE)
sys.path.insert(0, HERE)
import extract  # noqa: E402
from rustscan import AnchorLost  # noqa: E402

GEN = os.path.join(VERIF, "gen")
BUILD = os.path.join(VERIF, ".build")
EVID = os.path.join(VERIF, "evidence")
REPLAYS = os.path.join(VERIF, "replays")
CONTRACTS = os.path.join(VERIF, "contracts")
LEDGER = os.path.join(CONTRACTS, "ledger.json")
KNOWN = os.path.join(VERIF, "known_findings.txt")
SCRATCH_ROOT = os.environ.get("VERIF_SCRATCH", "/var/tmp/nfverif")

# generous resource limit: proofs use a few percent of it; a proof that needs more is split, not given more
DEFAULT_RLIMIT = 150

# std functions whose vstd specification is complete (result fully determined): a new call to one of these does not
# make a failed proof inconclusive
STRONG_SPEC = {"max", "min", "saturating_sub", "saturating_add", "checked_sub", "checked_add", "wrapping_sub", "wrapping_add",
               "len", "is_empty", "push", "extend_from_slice", "contains_key", "contains", "insert", "is_some", "is_none",
               "is_ok", "is_err", "unwrap_or", "Some", "Ok", "Err", "None", "if", "match", "let", "return", "for", "while",
               "usize::from", "u64::from", "u32::from", "u16::from", "u128::from", "Vec::from", "to_vec",
               "vec!", "Vec::new", "Vec::with_capacity", "BTreeMap::new",
               "entry", "or_insert_with", "extend"}    # the last three: only in the forms that rules R28 / R2 / R29 / R31 rewrite (any other form has no specification: undecided)

OFFLINE_ENV = {"CARGO_NET_OFFLINE": "true"}

LOGICAL = re.compile(
    r"^error: (postcondition not satisfied|precondition not satisfied|assertion failed|"
    r"invariant not satisfied[^\n]*|decreases not satisfied[^\n]*|possible arithmetic (?:underflow/)?overflow|"
    r"possible division by zero|possible bit shift underflow/overflow|"
    r"loop invariant not[^\n]*|could not prove termination[^\n]*|"
    r"unable to prove[^\n]*|unreachable\(\) is possibly reachable|"
    r"recommendation not met[^\n]*|index out of bounds[^\n]*|"
    r"failed this postcondition|constructed value may fail to meet its declared type invariant|"
    r"cannot show[^\n]*)", re.M)
RESOURCE = re.compile(r"Resource limit \(rlimit\) exceeded|rlimit exceeded|timed out|out of memory", re.I)


def log(*a):
    print(*a, flush=True)


def sh(cmd, cwd=None, env=None, timeout=None):
    e = dict(os.environ)
    e.update(OFFLINE_ENV)
    if env:
        e.update(env)
    t0 = time.time()
    try:
        p = subprocess.run(cmd, cwd=cwd, env=e, capture_output=True, text=True, timeout=timeout)
        return p.returncode, p.stdout, p.stderr, time.time() - t0
    except subprocess.TimeoutExpired as ex:
        so = ex.stdout.decode() if isinstance(ex.stdout, bytes) else (ex.stdout or "")
        se = ex.stderr.decode() if isinstance(ex.stderr, bytes) else (ex.stderr or "")
        return 124, so, se + "\n[timed out after %ss]" % timeout, time.time() - t0


# --------------------------------------------------------------------------------------
# working-tree identity and the macro-expanded source
def tree_hash(repo):
    h = hashlib.sha256()
    files = []
    for root, dirs, fs in os.walk(os.path.join(repo, "src")):
        for f in fs:
            files.append(os.path.join(root, f))
    files += [os.path.join(repo, "Cargo.toml"), os.path.join(repo, "Cargo.lock")]
    for f in sorted(files):
        if os.path.exists(f):
            h.update(f[len(repo):].encode())
            h.update(open(f, "rb").read())
    return h.hexdigest()[:20]


def scratch_copy(repo, tag):
    d = os.path.join(SCRATCH_ROOT, "%s_%d" % (tag, os.getpid()))
    if os.path.exists(d):
        shutil.rmtree(d)
    os.makedirs(d)
    rc, so, se, _ = sh(["rsync", "-a", "--exclude", "target", "--exclude", ".git", "--exclude", "fuzz",
                        repo.rstrip("/") + "/", d + "/"])
    if rc != 0:
        raise RuntimeError("rsync failed: " + se)
    return d


def expanded_source(repo):
    """`rustc -Zunpretty=expanded` of the working tree (cached by tree hash)."""
    th = tree_hash(repo)
    os.makedirs(os.path.join(BUILD, "expanded"), exist_ok=True)
    out = os.path.join(BUILD, "expanded", th + ".rs")
    if os.path.exists(out) and os.path.getsize(out) > 1000:
        return open(out).read()
    d = scratch_copy(repo, "exp")
    try:
        rc, so, se, dt = sh(["cargo", "+nightly", "rustc", "--offline", "--lib", "--target-dir",
                             os.path.join(BUILD, "expand_target"), "--", "-Zunpretty=expanded"],
                            cwd=d, timeout=600)
    finally:
        shutil.rmtree(d, ignore_errors=True)
    if rc != 0 or len(so) < 1000:
        raise Undecided("macro expansion of the working tree failed (rustc): " + se[-2000:])
    with open(out + ".tmp", "w") as f:
        f.write(so)
    os.replace(out + ".tmp", out)
    return so


class Undecided(Exception):
    pass


# --------------------------------------------------------------------------------------
# Verus units
def canary_text(text, fn_names):
    """Prepend `false` to the ensures of each named function: every one must then FAIL
    (a contradictory requires / assumption would let it pass)."""
    if isinstance(fn_names, str):
        fn_names = [fn_names]
    for fn_name in fn_names:
        rx = re.compile(r"(/\*@uc:(?:\w+::)?%s\*/[^{;]*?\bensures\b)" % re.escape(fn_name), re.S)
        m = rx.search(text)
        if not m:
            rx = re.compile(r"(fn\s+%s\b[^{;]*?\bensures\b)" % re.escape(fn_name), re.S)
            m = rx.search(text)
        if not m:
            return None
        text = text[:m.end()] + " false, " + text[m.end():]
    return text


def write_atomic(path, text):
    """checks of different properties may run in parallel and share units: a generated file is never seen half-written"""
    tmp = "%s.%d.tmp" % (path, os.getpid())
    with open(tmp, "w") as f:
        f.write(text)
    os.replace(tmp, path)


def run_verus_file(path, timeout=300, rlimit=None):
    cmd = ["verus", path, "--output-json", "--time", "--num-threads", "1"]
    if rlimit:
        cmd += ["--rlimit", str(rlimit)]
    rc, so, se, dt = sh(cmd, timeout=timeout)
    info = {"rc": rc, "wall_s": round(dt, 2), "stderr": se}
    try:
        j = json.loads(so)
    except Exception:
        j = None
    info["json"] = j
    return info


def classify_verus(info):
    """-> (status, funcs, failures) ; status in ok|logical|undecided"""
    j = info["json"]
    se = info["stderr"]
    funcs = []
    smt_ms = 0
    if j and "times-ms" in j:
        try:
            for mod in j["times-ms"]["smt"]["smt-run-module-times"]:
                for f in mod.get("function-breakdown", []):
                    funcs.append({"function": f["function"], "mode": f.get("mode:", ""),
                                  "ok": bool(f["success"]), "smt_ms": f["time"]})
                    smt_ms += f["time"]
        except Exception:
            pass
    vr = (j or {}).get("verification-results", {})
    if info["rc"] == 0 and vr.get("success") and vr.get("errors", 1) == 0 and vr.get("verified", 0) > 0:
        return "ok", funcs, [], smt_ms, vr.get("verified", 0)
    if info["rc"] == 124 or RESOURCE.search(se):
        mres = re.search(r"error: [^\n]*(?:Resource limit|rlimit)[^\n]*\n\s*-->[^\n]*(?:\n[^\n]*){0,3}", se)
        txt = ("verifier ran out of its resource budget (no verdict): " + mres.group(0)) if mres else se[-1500:]
        return "undecided", funcs, [{"kind": "resource", "text": txt[:1500]}], smt_ms, 0
    fails = []
    blocks = re.split(r"\n(?=error)", "\n" + se)
    hard = []
    for b in blocks:
        b = b.strip("\n")
        if not b.startswith("error"):
            continue
        if b.startswith("error: aborting") or b.startswith("error: could not compile"):
            continue
        m = LOGICAL.match(b)
        if m:
            loc = re.search(r"-->\s*(\S+?):(\d+):(\d+)", b)
            fails.append({"kind": m.group(1), "line": int(loc.group(2)) if loc else 0, "text": b[:3000]})
        else:
            hard.append(b[:1500])
    if hard or vr.get("encountered-vir-error") or not fails:
        return "undecided", funcs, [{"kind": "compile", "text": "\n".join(hard)[:4000] or se[-3000:]}], smt_ms, 0
    return "logical", funcs, fails, smt_ms, vr.get("verified", 0)


def fn_at_line(text, line, want_uc=False):
    """name of the fn whose item contains `line` (1-based) in generated text
    (want_uc: also say whether it is a function extracted from /repo, marked /*@uc:Type::fn*/;
    for those the qualified label is returned)"""
    best = None
    uc = False
    for m in re.finditer(r"(?:/\*@uc:([\w:]+)\*/\s*(?:pub(?:\([^)]*\))?\s+)?)?\bfn\s+(\w+)", text):
        ln = text.count("\n", 0, m.end()) + 1
        if ln <= line:
            best = m.group(1) or m.group(2)
            uc = bool(m.group(1))
        else:
            break
    return (best, uc) if want_uc else best


def run_verus_unit(unit, repo, want_canary=True):
    uid = unit["id"]
    res = {"id": uid, "kind": "verus", "functions": unit.get("functions", []), "backend": "verus 0.2026.09.13 / z3",
           "bounded": False}
    t0 = time.time()
    try:
        tpl = os.path.join(CONTRACTS, "verus", unit["template"])
        prov = (lambda: expanded_source(repo))
        text, meta = extract.generate(tpl, repo, prov)
    except AnchorLost as e:
        res.update(status="undecided", reason="anchor lost: %s" % e)
        return res
    except extract.TemplateError as e:
        res.update(status="undecided", reason="template error: %s" % e)
        return res
    except Undecided as e:
        res.update(status="undecided", reason=str(e))
        return res
    os.makedirs(GEN, exist_ok=True)
    tagdir = os.path.join(GEN, hashlib.sha256(repo.encode()).hexdigest()[:8])
    os.makedirs(tagdir, exist_ok=True)
    path = os.path.join(tagdir, uid.replace(".", "_") + ".rs")
    write_atomic(path, text)
    res["extraction"] = meta
    res["generated_file"] = path
    info = run_verus_file(path, rlimit=unit.get("rlimit", DEFAULT_RLIMIT))
    status, funcs, fails, smt_ms, nver = classify_verus(info)
    # A refactoring may introduce a named constant next to the function; its value is definitional, so
    # it is pulled in verbatim from the same source file and the unit is re-run (helper *functions* are not:
    # without a contract of their own nothing could be concluded from them).
    auto = []
    for _round in range(4):
        if status != "undecided":
            break
        m = re.search(r"cannot find value `(\w+)` in this scope", info["stderr"])
        if not m or m.group(1) in auto:
            break
        name = m.group(1)
        ctext = None
        for fmeta in meta.get("functions", []):
            try:
                from rustscan import Source
                if fmeta["src"] == "expanded":
                    src = Source(expanded_source(repo), "expanded")
                    rng = src.whole()
                    for mname in fmeta.get("mod", "-").split("::"):
                        if mname != "-":
                            rng = src.find_mod(rng, mname)
                else:
                    src = Source(open(os.path.join(repo, fmeta["src"])).read(), fmeta["src"])
                    rng = src.whole()
                a, b = src.find_const(rng, name)
                ctext = src.text[a:b]
                break
            except (AnchorLost, OSError, Undecided):
                continue
        if ctext is None:
            break
        auto.append(name)
        text = text.replace("\nfn main() {}", "\nverus! { pub %s }\nfn main() {}" % ctext.replace("pub ", "", 1), 1)
        write_atomic(path, text)
        info = run_verus_file(path, rlimit=unit.get("rlimit", DEFAULT_RLIMIT))
        status, funcs, fails, smt_ms, nver = classify_verus(info)
    if auto:
        res["auto_included_consts"] = auto
    res["status"] = status
    res["obligations"] = [f for f in funcs]
    res["verified_items"] = nver
    res["smt_ms"] = smt_ms
    res["wall_s"] = round(time.time() - t0, 2)
    if status == "logical":
        for f in fails:
            f["function"], f["in_repo_code"] = fn_at_line(text, f["line"], want_uc=True)
        res["failures"] = fails
        if not any(f["in_repo_code"] for f in fails):
            # every failed obligation sits in a spec-level lemma / helper: its proof does not depend on
            # the code of /repo, so this is proof instability, not a property violation
            res["status"] = "undecided"
            res["reason"] = "proof of a spec-level lemma failed (%s); no obligation of extracted /repo code failed" % \
                ", ".join(sorted(set(str(f["function"]) for f in fails)))
    elif status == "undecided":
        res["reason"] = fails[0]["text"] if fails else "unknown"
    # vacuity canary: contract with `false` appended must fail
    if status == "ok" and want_canary and unit.get("canary"):
        names = unit["canary"] if isinstance(unit["canary"], list) else [unit["canary"]]
        bad = []
        for n in names:   # one at a time: a canary'd lemma would poison its callers
            ctext = canary_text(text, n)
            if ctext is None:
                bad.append("%s(no ensures found)" % n)
                continue
            cpath = path[:-3] + "_canary_%s.rs" % n
            write_atomic(cpath, ctext)
            cinfo = run_verus_file(cpath, rlimit=min(unit.get("rlimit", 10), 10))
            cst, _, cfails, _, _ = classify_verus(cinfo)
            failed_fns = set(fn_at_line(ctext, f["line"]) for f in cfails) if cst == "logical" else set()
            # running out of resources while trying to prove `false` is also a refusal (no quick contradiction)
            res_out = cst == "undecided" and cfails and cfails[0].get("kind") == "resource" and \
                re.search(r"rlimit[^\n]*\n\s*-->[^\n]*\n[^\n]*\n[^\n]*\b%s\b" % re.escape(n), cinfo["stderr"])
            hit = any(ff == n or (ff or "").endswith("::" + n) for ff in failed_fns)
            # the inserted `false` (the only one in the file) reported as a failed postcondition is a refusal even if
            # another part of the same function ran out of the canary's small resource budget in the same run
            false_refused = re.search(r"error: postcondition not satisfied\n\s*-->[^\n]*\n[^\n]*\n\s*\d+\s*\|\s*ensures false,", cinfo["stderr"])
            if not (cst == "logical" and hit) and not res_out and not false_refused:
                bad.append("%s(%s)" % (n, cst))
        res["canary"] = "fails-as-required x%d" % len(names) if not bad else "VACUOUS %s" % bad
        if bad:
            res["status"] = "undecided"
            res["reason"] = "vacuity canary: `ensures false` accepted or undecided for %s" % bad
    return res


# --------------------------------------------------------------------------------------
# Kani harnesses (compiled inside a scratch copy of the real crate)
KANI_FILES = {
    "lib": "src/lib.rs",
    "protocol": "src/protocol.rs",
    "netflow_common": "src/netflow_common.rs",
    "v5": "src/static_versions/v5.rs",
    "v7": "src/static_versions/v7.rs",
    "v9": "src/variable_versions/v9.rs",
    "ipfix": "src/variable_versions/ipfix.rs",
    "data_number": "src/variable_versions/data_number.rs",
    "v9_lookup": "src/variable_versions/v9_lookup.rs",
    "ipfix_lookup": "src/variable_versions/ipfix_lookup.rs",
}


def write_kf_files(findings):
    """Per-obligation blocked-input expressions from known_findings.txt (never edited at run time)."""
    d = os.path.join(BUILD, "kf")
    os.makedirs(d, exist_ok=True)
    by = {}
    for f in findings:
        if f.get("block"):
            by.setdefault(f["obligation"], []).append("(" + f["block"] + ")")
    reg = load_registry()
    for u in reg.get("unit", []):
        if u["kind"].startswith("kani") and u.get("kf_file"):
            write_atomic(os.path.join(d, u["kf_file"]),
                         "fn kf_blocked(%s) -> bool { %s }\n" % (u.get("kf_params", "n: u8"), " || ".join(["false"] + by.get(u["id"], []))))
    return d


def kani_scratch(repo, features_off=False):
    d = scratch_copy(repo, "kani" + ("_nf" if features_off else ""))
    for key, rel in KANI_FILES.items():
        h = os.path.join(VERIF, "kani", "h_%s.rs" % key)
        if not os.path.exists(h):
            continue
        p = os.path.join(d, rel)
        if not os.path.exists(p):
            raise AnchorLost("file %s missing" % rel)
        with open(p, "a") as f:
            f.write('\n#[cfg(kani)]\n#[path = "%s"]\nmod verif_kani;\n' % h)
    # harnesses generated from the layout tables (leaf contracts of the fixed-layout parsers)
    import layouts
    gdir = os.path.join(BUILD, "kani_gen")
    os.makedirs(gdir, exist_ok=True)
    for jf in sorted(os.listdir(os.path.join(CONTRACTS, "layouts"))):
        if not jf.endswith(".json"):
            continue
        name = jf[:-5]
        L = json.load(open(os.path.join(CONTRACTS, "layouts", jf)))
        if not L.get("module_file"):
            continue
        gp = os.path.join(gdir, "h_gen_%s.rs" % name)
        with open(gp, "w") as f:
            f.write(layouts.gen_kani(name))
        p = os.path.join(d, L["module_file"])
        if not os.path.exists(p):
            raise AnchorLost("file %s missing" % L["module_file"])
        with open(p, "a") as f:
            f.write('\n#[cfg(kani)]\n#[path = "%s"]\nmod verif_kani_gen;\n' % gp)
    os.makedirs(os.path.join(d, ".cargo"), exist_ok=True)
    with open(os.path.join(d, ".cargo", "config.toml"), "w") as f:
        f.write("[net]\noffline = true\n")
    return d


KANI_RESULT = re.compile(r"^VERIFICATION:- (SUCCESSFUL|FAILED)", re.M)


def parse_kani_output(out):
    checks_total = None
    m = re.search(r"\*\* (\d+) of (\d+) failed", out)
    failed_n = None
    if m:
        failed_n, checks_total = int(m.group(1)), int(m.group(2))
    failed = []
    for mm in re.finditer(r"Failed Checks: (.*?)\n\s*File: \"([^\"]+)\", line (\d+), in (\S+)", out, re.S):
        failed.append({"desc": mm.group(1).strip(), "file": mm.group(2), "line": int(mm.group(3)), "in": mm.group(4)})
    covers = re.findall(r"Status: (SATISFIED|UNSATISFIABLE|UNREACHABLE|UNDETERMINED)\n\s*Description: \"cover[^\"]*\"", out)
    cov2 = re.findall(r"\*\* (\d+) of (\d+) cover properties satisfied", out)
    vt = re.search(r"Verification Time: ([0-9.]+)s", out)
    return {"failed_n": failed_n, "checks": checks_total, "failed": failed,
            "covers": cov2[0] if cov2 else None, "verif_time_s": float(vt.group(1)) if vt else None}


def extract_concrete_test(out):
    """The concrete-playback unit test of a FAILED check (not of a cover property)."""
    blocks = re.findall(r"Concrete playback unit test for `[^`]+`:\n```\n(.*?)```", out, re.S)
    bad = [b for b in blocks if not re.search(r"/// Check for `cover`", b)]
    if not bad:
        return None
    # an assertion message may span several lines: keep every line before `#[test]` a doc comment
    head, sep, rest = bad[0].partition("#[test]")
    head = "\n".join(l if (l.startswith("///") or not l.strip()) else "/// " + l for l in head.split("\n"))
    return head + sep + rest


def run_kani_harness(unit, scratch, features_off=False, playback=False):
    uid = unit["id"]
    t0 = time.time()
    res = {"id": uid, "kind": "kani", "functions": unit.get("functions", []),
           "backend": "kani 0.68 / cbmc 6.11 (%s)" % unit.get("solver", "default SAT"),
           "bounded": bool(unit.get("bounded")), "bound": unit.get("bound", "")}
    cmd = ["cargo", "kani", "--target-dir", os.path.join(BUILD, "kani_target" + ("_nf" if features_off else "")),
           "-Z", "function-contracts", "-Z", "stubbing", "--harness", unit["harness"], "--exact"]
    if features_off:
        cmd += ["--no-default-features"]
    if unit.get("solver"):
        cmd += ["--solver", unit["solver"]]
    cmd += unit.get("kani_flags", [])
    if playback:
        cmd += ["-Z", "concrete-playback", "--concrete-playback=print"]
    rc, so, se, dt = sh(cmd, cwd=scratch, timeout=unit.get("timeout", 900), env={"VERIF_KF_DIR": os.path.join(BUILD, "kf")})
    out = so + "\n" + se
    res["wall_s"] = round(dt, 2)
    info = parse_kani_output(out)
    res["checks"] = info["checks"]
    res["covers"] = info["covers"]
    res["solver_s"] = info["verif_time_s"]
    m = KANI_RESULT.search(out)
    res["raw_tail"] = out[-3000:]
    if rc == 124:
        res.update(status="undecided", reason="timeout after %ss" % unit.get("timeout", 900))
    elif not m:
        if re.search(r"error(\[E\d+\])?:", out):
            res.update(status="undecided", reason="compile error in harness build: " +
                       "\n".join(re.findall(r"error.*", out)[:6]))
        else:
            res.update(status="undecided", reason="no verdict from kani")
    elif m.group(1) == "SUCCESSFUL":
        if not info["checks"]:
            res.update(status="undecided", reason="zero checks generated (vacuous)")
        elif info["covers"] and info["covers"][0] != info["covers"][1]:
            res.update(status="undecided", reason="cover property unsatisfied (vacuous precondition?): %s of %s" % info["covers"])
        else:
            res["status"] = "ok"
    else:
        real = [f for f in info["failed"] if "unwinding assertion" not in f["desc"]]
        if not real and info["failed"]:
            res.update(status="undecided", reason="unwinding assertion failed (bound too small)")
        elif not info["failed"]:
            res.update(status="undecided", reason="FAILED without a failed check listed")
        else:
            res["status"] = "logical"
            res["failures"] = [{"kind": "kani check", "text": "%s (%s:%d in %s)" % (f["desc"], f["file"], f["line"], f["in"]),
                                "function": f["in"]} for f in real]
            res["concrete_test"] = extract_concrete_test(out)
    res["wall_s"] = round(time.time() - t0, 2)
    return res


def run_kani_batch(units, scratch, features_off=False, jobs=8, timeout=2400):
    """One `cargo kani` invocation for many harnesses (the crate is compiled once; harnesses are
    verified in parallel with --output-format=terse).  Returns one result per unit."""
    t0 = time.time()
    cmd = ["cargo", "kani", "--target-dir", os.path.join(BUILD, "kani_target" + ("_nf" if features_off else "")),
           "-Z", "function-contracts", "-Z", "stubbing", "--exact", "-j", str(jobs), "--output-format=terse"]
    if features_off:
        cmd += ["--no-default-features"]
    for u in units:
        cmd += ["--harness", u["harness"]]
    rc, so, se, dt = sh(cmd, cwd=scratch, timeout=timeout, env={"VERIF_KF_DIR": os.path.join(BUILD, "kf")})
    out = so + "\n" + se
    # parse per-thread sections
    cur = {}
    per = {}
    lines = out.split("\n")
    k = 0
    while k < len(lines):
        ln = lines[k]
        m = re.match(r"Thread (\d+): Checking harness (\S+?)\.\.\.", ln)
        if m:
            cur[m.group(1)] = m.group(2)
            per.setdefault(m.group(2), {"failed": [], "verdict": None, "time": None})
        m2 = re.match(r"Thread (\d+):\s*$", ln)
        if m2 and m2.group(1) in cur:
            h = cur[m2.group(1)]
            j = k + 1
            while j < len(lines) and not lines[j].startswith("Thread ") and not lines[j].startswith("Manual Harness Summary"):
                l2 = lines[j]
                mm = re.match(r"Failed Checks: (.*)", l2)
                if mm:
                    per[h]["failed"].append(mm.group(1).strip())
                mm = re.match(r"VERIFICATION:- (SUCCESSFUL|FAILED)", l2)
                if mm:
                    per[h]["verdict"] = mm.group(1)
                mm = re.match(r"Verification Time: ([0-9.]+)s", l2)
                if mm:
                    per[h]["time"] = float(mm.group(1))
                j += 1
            k = j - 1
        k += 1
    compile_err = None
    if not per and re.search(r"^error(\[E\d+\])?[: ]", out, re.M):
        compile_err = "\n".join(re.findall(r"^error.*(?:\n\s+-->.*)?", out, re.M)[:8])
    results = []
    led = load_ledger().get("discharged", {})
    for u in units:
        res = {"id": u["id"], "kind": "kani", "functions": u.get("functions", []),
               "backend": "kani 0.68 / cbmc 6.11", "bounded": bool(u.get("bounded")), "bound": u.get("bound", ""),
               "wall_s": round(time.time() - t0, 2)}
        info = per.get(u["harness"])
        linfo = led.get(u["id"], {})
        res["checks"] = linfo.get("checks")
        res["covers"] = linfo.get("covers")
        res["checks_note"] = "CBMC check and cover counts are those recorded when the ledger was written (terse batch output does not print them)"
        if compile_err:
            res.update(status="undecided", reason="compile error in harness build: " + compile_err[:1500])
        elif rc == 124 and (not info or not info["verdict"]):
            res.update(status="undecided", reason="batch timeout after %ss before this harness finished" % timeout)
        elif not info or not info["verdict"]:
            res.update(status="undecided", reason="no verdict from kani for this harness: " + out[-800:])
        elif info["verdict"] == "SUCCESSFUL":
            res["status"] = "ok"
            res["solver_s"] = info["time"]
        else:
            real = [f for f in info["failed"] if "unwinding assertion" not in f]
            res["solver_s"] = info["time"]
            if not real and info["failed"]:
                res.update(status="undecided", reason="unwinding assertion failed (bound too small)")
            elif not real:
                res.update(status="undecided", reason="FAILED without a failed check listed")
            else:
                res["status"] = "logical"
                res["failures"] = [{"kind": "kani check", "text": f, "function": u["harness"].split("::")[-1]} for f in real]
        results.append(res)
    return results


def native_replay(unit, scratch, concrete_test, features_off=False):
    """Run Kani's concrete-playback unit test natively on the real code (cargo kani playback)."""
    m = re.search(r"fn (kani_concrete_playback_\w+)", concrete_test or "")
    if not m:
        return None
    tname = m.group(1)
    # which harness file?  <module path>::verif_kani[_gen]::<fn>
    parts = unit["harness"].split("::")
    modname = parts[-2]
    # locate the `#[path = "..."] mod <modname>;` line in the scratch copy
    hit = None
    for root, _d, fs in os.walk(os.path.join(scratch, "src")):
        for f in fs:
            p = os.path.join(root, f)
            t = open(p).read()
            mm = re.search(r'#\[path = "([^"]+)"\]\nmod %s;' % re.escape(modname), t)
            if mm and re.search(r"\bfn %s\b" % re.escape(parts[-1]), open(mm.group(1)).read()):
                hit = (p, t, mm)
    if not hit:
        return "native replay not possible: harness file not found"
    p, t, mm = hit
    newh = os.path.join(BUILD, "playback_%s_%d.rs" % (unit["id"].replace(".", "_"), os.getpid()))
    with open(newh, "w") as f:
        f.write(open(mm.group(1)).read() + "\n" + concrete_test + "\n")
    with open(p, "w") as f:
        f.write(t[:mm.start(1)] + newh + t[mm.end(1):])
    cmd = ["cargo", "kani", "playback", "-Z", "concrete-playback"]
    if features_off:
        cmd += ["--no-default-features"]
    cmd += ["--", tname]
    rc, so, se, dt = sh(cmd, cwd=scratch, timeout=900, env={"VERIF_KF_DIR": os.path.join(BUILD, "kf"),
                                                            "CARGO_TARGET_DIR": os.path.join(BUILD, "kani_playback_target")})
    with open(p, "w") as f:
        f.write(t)
    out = so + "\n" + se
    pan = re.findall(r"panicked at [^\n]*\n[^\n]*", out)
    res = re.findall(r"test result: [^\n]*", out)
    return "cargo kani playback -- %s  (exit %d, %.0fs)\n%s\n%s" % (tname, rc, dt, "\n".join(pan[:3]), "\n".join(res[:2]))


# --------------------------------------------------------------------------------------
def load_registry():
    with open(os.path.join(CONTRACTS, "units.toml"), "rb") as f:
        reg = tomllib.load(f)
    return reg


def load_ledger():
    if os.path.exists(LEDGER):
        return json.load(open(LEDGER))
    return {"discharged": {}}


def load_known():
    findings, fixed = [], []
    if os.path.exists(KNOWN):
        for ln in open(KNOWN):
            ln = ln.strip()
            if not ln or ln.startswith("#"):
                continue
            kv = dict(re.findall(r'(\w+)=("(?:[^"\\]|\\.)*"|\S+)', ln))
            kv = {k: v.strip('"') for k, v in kv.items()}
            if ln.startswith("finding:"):
                findings.append(kv)
            elif ln.startswith("fixed:"):
                fixed.append(kv)
    return findings, fixed


def main():
    ap = argparse.ArgumentParser()
    ap.add_argument("prop")
    ap.add_argument("--tier", default=os.environ.get("VERIF_TIER", "quick"))
    ap.add_argument("--repo", default="/repo")
    ap.add_argument("--update-ledger", action="store_true")
    ap.add_argument("--only", default=None)
    ap.add_argument("--jobs", type=int, default=int(os.environ.get("VERIF_JOBS", "16")))
    ap.add_argument("--no-evidence", action="store_true")
    ap.add_argument("--skip-kani", action="store_true", help="dev: run only the Verus and build obligations")
    args = ap.parse_args()
    prop = args.prop
    tier = args.tier if args.tier in ("quick", "thorough") else "quick"
    seed = int(os.environ.get("VERIF_SEED", "0") or 0)
    t0 = time.time()
    reg = load_registry()
    ledger = load_ledger()
    findings, fixed = load_known()
    repo = os.path.abspath(args.repo)

    units = [u for u in reg.get("unit", []) if prop in u.get("props", []) or prop == "ALL"]   # ALL: dev/seed runs only
    if prop == "ALL":
        args.no_evidence = True
    if args.only:
        units = [u for u in units if u["id"] == args.only]
    if tier == "quick":
        units = [u for u in units if u.get("tier", "quick") == "quick"]

    # obligations named as cross-checks of a selected unit are run lazily: only if that unit's proof fails (see below)
    if args.skip_kani:
        units = [u for u in units if not u["kind"].startswith("kani")]
    pmeta = reg.get("property", {}).get(prop, {})
    if not units:
        log("no obligations registered for %s" % prop)
        return 2

    results = []
    write_kf_files(findings)
    verus_units = [u for u in units if u["kind"] in ("verus",)]
    kani_units = [u for u in units if u["kind"] == "kani"]
    kani_nf_units = [u for u in units if u["kind"] == "kani_nofeat"]
    if tier == "thorough":
        # every complete leaf harness is re-proved on the feature-off build as well
        have_nf = set(u["harness"] for u in kani_nf_units)
        for u in kani_units:
            if not u.get("bounded") and u["harness"] not in have_nf and "unknown_on" not in u["harness"] and "unknown_5" not in u["harness"] \
                    and not [f for f in findings if f.get("obligation") == u["id"]]:
                d = dict(u)
                d["id"] = u["id"] + "@nofeat"
                d["kind"] = "kani_nofeat"
                kani_nf_units.append(d)
                units.append(d)
    build_units = [u for u in units if u["kind"] == "build"]

    # expanded source is shared: produce it once before fanning out
    need_exp = any(u.get("expanded") for u in verus_units)
    exp_err = None
    if need_exp:
        try:
            expanded_source(repo)
        except (Undecided, AnchorLost, RuntimeError) as e:
            exp_err = str(e)

    with cf.ThreadPoolExecutor(max_workers=max(1, args.jobs // 2)) as ex:
        futs = []
        for u in verus_units:
            if exp_err and u.get("expanded"):
                results.append({"id": u["id"], "kind": "verus", "status": "undecided", "reason": exp_err,
                                "functions": u.get("functions", []), "bounded": False})
                continue
            futs.append(ex.submit(run_verus_unit, u, repo))
        # kani (one check at a time per build directory: concurrent runs would overwrite each other's artefacts)
        scratch = scratch_nf = None
        klock = None
        if kani_units or kani_nf_units:
            import fcntl
            os.makedirs(BUILD, exist_ok=True)
            klock = open(os.path.join(BUILD, "kani.lock"), "w")
            fcntl.flock(klock, fcntl.LOCK_EX)
        try:
            kani_futs = []
            if kani_units:
                scratch = kani_scratch(repo)
                if args.update_ledger or tier == "thorough":
                    # full-format individual runs: CBMC check counts and cover results are measured on this run
                    k0 = run_kani_harness(kani_units[0], scratch)
                    results.append(k0)
                    futs += [ex.submit(run_kani_harness, u, scratch) for u in kani_units[1:]]
                else:
                    kani_futs.append(ex.submit(run_kani_batch, kani_units, scratch, False, args.jobs // 2))
            if kani_nf_units:
                scratch_nf = kani_scratch(repo, features_off=True)
                if args.update_ledger or tier == "thorough":
                    k0 = run_kani_harness(kani_nf_units[0], scratch_nf, features_off=True)
                    results.append(k0)
                    futs += [ex.submit(run_kani_harness, u, scratch_nf, True) for u in kani_nf_units[1:]]
                else:
                    kani_futs.append(ex.submit(run_kani_batch, kani_nf_units, scratch_nf, True, args.jobs // 2))
            for u in build_units:
                futs.append(ex.submit(run_build_unit, u, repo))
            for f in futs:
                results.append(f.result())
            for f in kani_futs:
                results += f.result()
            # lazy cross-checks: a Verus unit failed in functions that have complete Kani counterparts -> run those now
            have = set(r["id"] for r in results)
            need = []
            for r in results:
                u = [x for x in units if x["id"] == r["id"]]
                if r.get("kind") == "verus" and r.get("status") == "logical" and u and u[0].get("cross"):
                    for f in r.get("failures", []):
                        for cid in u[0]["cross"].get(f.get("function"), []):
                            if cid not in have and cid not in [n["id"] for n in need]:
                                need += [x for x in reg.get("unit", []) if x["id"] == cid]
            if need and not args.skip_kani:
                if scratch is None:
                    scratch = kani_scratch(repo)
                units += need
                results += run_kani_batch(need, scratch, False, args.jobs // 2)
            # counterexample replay for kani failures
            for r in results:
                if r.get("kind") == "kani" and r.get("status") == "logical" and not r.get("concrete_test") \
                        and r["id"] in ledger.get("discharged", {}) \
                        and not [f for f in findings if f.get("obligation") == r["id"] and not f.get("block")]:
                    u = [x for x in units if x["id"] == r["id"]][0]
                    sc = scratch_nf if u["kind"] == "kani_nofeat" else scratch
                    rr = run_kani_harness(u, sc, u["kind"] == "kani_nofeat", playback=True)
                    r["concrete_test"] = rr.get("concrete_test")
                    if r["concrete_test"]:
                        try:
                            r["replay_native"] = native_replay(u, sc, r["concrete_test"], u["kind"] == "kani_nofeat")
                        except Exception as e:      # replay is best effort; the violation stands on the failed check
                            r["replay_native"] = "native replay failed to run: %s" % e
        except AnchorLost as e:
            results.append({"id": "kani-setup", "kind": "kani", "status": "undecided", "reason": str(e), "bounded": False})
        finally:
            for d in (scratch, scratch_nf):
                if d:
                    shutil.rmtree(d, ignore_errors=True)
            if klock:
                klock.close()

    return finish(prop, tier, seed, units, results, ledger, findings, fixed, pmeta, args, t0)


def run_build_unit(unit, repo):
    t0 = time.time()
    d = scratch_copy(repo, "build_" + unit["id"].replace(".", "_"))
    try:
        cmd = unit["cmd"] + ["--target-dir", os.path.join(BUILD, "build_target")]
        rc, so, se, dt = sh(cmd, cwd=d, timeout=900)
    finally:
        shutil.rmtree(d, ignore_errors=True)
    res = {"id": unit["id"], "kind": "build", "functions": unit.get("functions", []), "backend": "rustc (stable)",
           "bounded": False, "wall_s": round(time.time() - t0, 2), "obligations": [{"function": " ".join(unit["cmd"]), "ok": rc == 0}]}
    if rc == 0:
        res["status"] = "ok"
    elif rc == 124:
        res.update(status="undecided", reason="timeout")
    else:
        res["status"] = "logical"
        res["failures"] = [{"kind": "build failed", "text": "\n".join(re.findall(r"error.*", se)[:10]) + "\n" + se[-2500:], "function": "cargo build"}]
    return res


def finish(prop, tier, seed, units, results, ledger, findings, fixed, pmeta, args, t0):
    os.makedirs(EVID, exist_ok=True)
    os.makedirs(REPLAYS, exist_ok=True)
    led = ledger.setdefault("discharged", {})
    violations = []
    undecided = []
    known_printed = []
    proved = []
    bounded_ok = []
    bounded_other = []
    by_id = {u["id"]: u for u in units}
    for r in results:
        u = by_id.get(r["id"], {})
        st = r.get("status")
        is_bounded = bool(r.get("bounded"))
        if st == "ok":
            (bounded_ok if is_bounded else proved).append(r)
            continue
        if st == "logical" and r.get("kind") == "verus":
            # A failed proof is an alarm only when the failing function still calls nothing but what it called when
            # the ledger was written.  A new callee (a std function without a specification, a new helper without a
            # contract) or a new closure means the verifier knows nothing about part of the function: the failure says
            # "needs contract", not "property violated" -> undecided.
            base = led.get(r["id"], {}).get("callees")
            cur = dict((f.get("label", f["fn"]), f) for f in r.get("extraction", {}).get("functions", []))
            fl = [f for f in r.get("failures", []) if f.get("in_repo_code")]
            if base is not None and fl:
                novel = {}
                for f in fl:
                    lab = f.get("function")
                    b0 = base.get(lab)
                    c0 = cur.get(lab)
                    if b0 is None or c0 is None:
                        continue
                    newc = sorted(set(c0.get("callees", [])) - set(b0.get("callees", [])) - STRONG_SPEC)
                    # `Path::Variant(..)` / `TupleStruct(..)` (CamelCase last segment) is a constructor or a pattern, not
                    # a function whose behaviour a contract would have to describe
                    newc = [c for c in newc if not c.rsplit("::", 1)[-1][:1].isupper()]
                    if c0.get("closures", 0) > b0.get("closures", 0):
                        newc.append("<a new closure>")
                    if newc:
                        novel[lab] = newc
                if novel and all(f.get("function") in novel for f in fl):
                    r["status"] = st = "undecided"
                    r["reason"] = "the proof failed in %s, which now calls code the contracts say nothing about: %s" % (
                        sorted(novel), "; ".join("%s -> %s" % (k, ", ".join(v)) for k, v in sorted(novel.items())))
        if st == "logical" and r.get("kind") == "verus" and u.get("cross"):
            # The same leaf contract is also proved on the compiled crate by complete Kani harnesses.  If Verus
            # fails only in functions whose Kani counterparts all pass in this run, the code still satisfies the
            # contract and the Verus failure is about the *shape* of the (expanded) text: undecided, not an alarm.
            st_by_id = dict((x["id"], x.get("status")) for x in results)
            fl = [f for f in r.get("failures", []) if f.get("in_repo_code")]
            if fl and all(u["cross"].get(f.get("function")) and all(st_by_id.get(c) == "ok" for c in u["cross"][f["function"]]) for f in fl):
                r["status"] = st = "undecided"
                r["reason"] = "Verus failed in %s but the complete Kani proofs of the same contracts (%s) pass on the compiled crate" % (
                    sorted(set(f["function"] for f in fl)), sorted(set(c for f in fl for c in u["cross"][f["function"]])))
        if st == "logical":
            # a finding recorded for the whole obligation (no `block=`) suppresses exactly this obligation
            kf = [f for f in findings if f.get("obligation") == r["id"] and not f.get("block")]
            if kf:
                r["known_finding"] = True
                continue
            violations.append(r)
            continue
        if is_bounded:
            bounded_other.append(r)   # an incomplete bounded stand-in never changes the verdict
        else:
            undecided.append(r)

    # ledger discipline: a logical failure counts as a violation only if the obligation is in the ledger
    real_viol = [r for r in violations if r["id"] in led]
    undecided += [r for r in violations if r["id"] not in led]
    if args.update_ledger:
        for r in proved + bounded_ok:
            led[r["id"]] = {"kind": r["kind"], "bounded": bool(r.get("bounded"))}
            if r["kind"] == "verus":
                led[r["id"]]["callees"] = dict((f.get("label", f["fn"]), {"callees": f.get("callees", []), "closures": f.get("closures", 0)})
                                               for f in r.get("extraction", {}).get("functions", []))
            if r["kind"] == "kani":
                led[r["id"]].update(checks=r.get("checks"), covers=list(r["covers"]) if r.get("covers") else None)
        json.dump(ledger, open(LEDGER, "w"), indent=1, sort_keys=True)

    # ---------------- replay artefacts
    viol_lines = []
    for r in real_viol:
        path = os.path.join(REPLAYS, "%s_%s.txt" % (prop, r["id"].replace(".", "_")))
        with open(path, "w") as f:
            f.write("property: %s\nfailed obligation: %s\nbackend: %s\nfunctions under contract: %s\n" % (
                prop, r["id"], r.get("backend"), ", ".join(r.get("functions", []))))
            f.write("this obligation is recorded as discharged on the unchanged tree (contracts/ledger.json)\n\n")
            for fl in r.get("failures", []):
                f.write("---- %s in fn %s\n%s\n\n" % (fl.get("kind"), fl.get("function"), fl.get("text")))
            if r.get("concrete_test"):
                f.write("---- counterexample (kani concrete playback, values as generated):\n%s\n" % r["concrete_test"])
            if r.get("replay_native"):
                f.write("---- native replay on the real code:\n%s\n" % r["replay_native"])
            if r.get("generated_file"):
                f.write("\ngenerated Verus file: %s\n" % r["generated_file"])
            if r.get("raw_tail"):
                f.write("\n---- verifier output (tail)\n%s\n" % r["raw_tail"])
        tail = "" if r.get("concrete_test") else " no-failing-input-found"
        viol_lines.append("VIOLATION property=%s replay=%s obligation=%s%s" % (prop, path, r["id"], tail))

    # ---------------- evidence
    n_obl = 0
    n_dis = 0
    obl_list = []
    for r in results:
        if r.get("bounded"):
            continue
        if r["kind"] == "verus":
            names = set(f["fn"] for f in r.get("extraction", {}).get("functions", []))
            allf = r.get("obligations", [])
            fs = [o for o in allf if o["function"].split("::")[-1] in names and o.get("mode") == "exec"
                  or o["function"].split("::")[-1].startswith("thm_")]
            helpers = [o for o in allf if o not in fs]
            if r.get("status") == "ok":
                n_obl += max(1, len(fs))
                n_dis += max(1, len(fs))
            else:
                n_obl += max(1, len(fs))
                n_dis += sum(1 for o in fs if o.get("ok")) if r.get("status") == "logical" else 0
            obl_list.append({"id": r["id"], "status": r.get("status"), "backend": r.get("backend"),
                             "functions_under_contract": r.get("functions"),
                             "verus_items": ["%s [%s] %s %dms" % (o["function"].split("::", 1)[-1], o.get("mode"), "ok" if o["ok"] else "FAILED", o["smt_ms"]) for o in fs],
                             "helper_items_not_counted": len(helpers),
                             "smt_ms": r.get("smt_ms"), "wall_s": r.get("wall_s"), "canary": r.get("canary"),
                             "extracted": r.get("extraction", {}).get("functions"),
                             "rewrite_rule_hits": r.get("extraction", {}).get("rule_hits"),
                             "opaque_statements": r.get("extraction", {}).get("opaque_statements"),
                             "reason": r.get("reason")})
        else:
            if r.get("known_finding"):
                pass   # recorded defect: listed under known findings, not an obligation of this run
            else:
                n_obl += 1
                n_dis += 1 if r.get("status") == "ok" else 0
            obl_list.append({"id": r["id"], "status": "known-finding" if r.get("known_finding") else r.get("status"), "backend": r.get("backend"),
                             "functions_under_contract": r.get("functions"), "cbmc_checks": r.get("checks"),
                             "covers": r.get("covers"), "solver_s": r.get("solver_s"), "wall_s": r.get("wall_s"),
                             "reason": r.get("reason")})
    bounded_list = [{"id": r["id"], "status": r.get("status"), "bound": r.get("bound"), "backend": r.get("backend"),
                     "functions": r.get("functions"), "cbmc_checks": r.get("checks"), "wall_s": r.get("wall_s"),
                     "reason": r.get("reason"), "label": "bounded -- NOT counted as proved"}
                    for r in results if r.get("bounded")]
    assumptions = list(pmeta.get("assumptions", []))
    claim_text = ""
    try:
        with open(os.path.join(CONTRACTS, "properties_meta.toml"), "rb") as f:
            pm = tomllib.load(f).get("claim", {}).get(prop, {})
        claim_text = pm.get("text", "")
        if pm.get("note"):
            assumptions.append("scope of the claim: " + pm["note"])
    except Exception:
        pass
    for u in units:
        for a in u.get("assumes", []):
            s = "%s assumes: %s" % (u["id"], a)
            if s not in assumptions:
                assumptions.append(s)
    unit_ids = set(u["id"] for u in load_registry().get("unit", []) if prop in u.get("props", []))
    known_printed = [f for f in findings if f.get("property") == prop]
    mine = set(f.get("obligation") for f in known_printed)
    # a finding recorded under another property is repeated here only if it is the WHOLE obligation (no block=) of a unit
    # this property shares: that obligation fails on the unchanged tree and must be explained, not counted
    known_printed += [f for f in findings if f.get("property") != prop and f.get("obligation") in unit_ids and not f.get("block")
                      and f.get("obligation") not in mine and not mine.add(f.get("obligation"))]
    trusted = list(load_registry().get("trusted_base", {}).get("items", []))
    ev = {
        "property_id": prop, "tier": tier, "seed": seed, "level": "proof",
        "coverage": {
            "obligations": n_obl, "discharged": n_dis,
            "checker_cmd": "python3 tools/check.py %s --tier %s  (verus <gen>.rs --output-json --time ; cargo kani --harness <h> --exact)" % (prop, tier),
            "trusted_base": trusted,
            "samples": obl_list[:6],
            "obligation_list": obl_list,
            "bounded_stand_ins": bounded_list,
            "known_findings_printed": known_printed,
            "undecided": [{"id": r["id"], "reason": (r.get("reason") or "")[:600]} for r in undecided],
            "explanation": pmeta.get("explanation", "") or claim_text,
            "repo_tree_hash": tree_hash(os.path.abspath(args.repo)),
            "exhaustive": False,
        },
        "assumptions": assumptions,
        "wall_s": round(time.time() - t0, 2),
        "violations": len(real_viol),
    }
    if not args.no_evidence:
        json.dump(ev, open(os.path.join(EVID, prop + ".json"), "w"), indent=1)

    for r in proved:
        log("discharged  %-34s %s  %.1fs" % (r["id"], r.get("backend", ""), r.get("wall_s", 0)))
    for r in bounded_ok:
        log("bounded-ok  %-34s %s  [%s]" % (r["id"], r.get("backend", ""), r.get("bound", "")))
    for r in bounded_other:
        log("bounded-incomplete %-27s %s" % (r["id"], (r.get("reason") or r.get("status"))[:200]))
    for f in known_printed:
        log("KNOWN-FINDING: property=%s obligation=%s %s%s" % (prop, f.get("obligation"),
            ("input " + f["block"] + ": ") if f.get("block") else "", f.get("what", "")))
    for r in undecided:
        log("UNDECIDED   %-34s %s" % (r["id"], (r.get("reason") or "logical failure of an obligation not in the ledger")[:1500]))
    for ln in viol_lines:
        log(ln)
    log("%s: %d/%d obligations discharged, %d bounded stand-ins ok, %d undecided, %d violations, %.1fs" % (
        prop, n_dis, n_obl, len(bounded_ok), len(undecided), len(real_viol), time.time() - t0))
    if real_viol:
        return 1
    if undecided:
        return 2
    return 0


if __name__ == "__main__":
    try:
        rc = main()
    except SystemExit:
        raise
    except BaseException as e:      # an internal error of the checker is never a verdict about /repo
        import traceback
        traceback.print_exc()
        print("UNDECIDED   internal error of the checker: %r" % (e,), flush=True)
        rc = 2
    sys.exit(rc)
