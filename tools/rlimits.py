#!/usr/bin/env python3
"""dev helper: per-unit top rlimit consumers (headroom against the unit's limit)"""
import json, os, subprocess, sys, tomllib
sys.path.insert(0, os.path.dirname(os.path.abspath(__file__)))
import check, extract
reg = check.load_registry()
for u in reg["unit"]:
    if u["kind"] != "verus" or (len(sys.argv) > 1 and not any(a in u["id"] for a in sys.argv[1:])):
        continue
    text, meta = extract.generate(os.path.join(check.CONTRACTS, "verus", u["template"]), "/repo", lambda: check.expanded_source("/repo"))
    p = "/tmp/rl_%s.rs" % u["id"].replace(".", "_")
    open(p, "w").write(text)
    lim = u.get("rlimit", check.DEFAULT_RLIMIT)
    r = subprocess.run(["verus", p, "--output-json", "--time", "--num-threads", "1", "--rlimit", str(lim)], capture_output=True, text=True)
    try:
        d = json.loads(r.stdout)
        fs = []
        for m in d["times-ms"]["smt"]["smt-run-module-times"]:
            for f in m.get("function-breakdown", []):
                fs.append((f["rlimit"] / 1e6, f["time"], f["function"].split("::")[-1], f["success"]))
        fs.sort(reverse=True)
        print("%-22s limit %4d  ok=%s  top: %s" % (u["id"], lim, d["verification-results"]["success"],
              ", ".join("%s %.1fM/%dms%s" % (n, rl, t, "" if ok else " FAIL") for rl, t, n, ok in fs[:3])))
    except Exception as e:
        print(u["id"], "no json", r.stderr[-300:])
    os.remove(p)
