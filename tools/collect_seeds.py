#!/usr/bin/env python3
"""Copy confirmed round-2 seeds from /tmp/seed2/<ID>/SEED/<v>/ into /verif/seeded/r2-<ID>-<v>/ with a meta.json."""
import json, os, re, shutil, sys
V = os.path.dirname(os.path.dirname(os.path.abspath(__file__)))
base = subprocess_out = None
import subprocess
head = subprocess.run(["git", "-C", "/repo", "rev-parse", "--short", "HEAD"], capture_output=True, text=True).stdout.strip()
ROOT = sys.argv[1] if len(sys.argv) > 1 else "/tmp/seed2"
PREFIX = sys.argv[2] if len(sys.argv) > 2 else "r2"
for ID in sorted(os.listdir(ROOT)):
    d = os.path.join(ROOT, ID, "SEED")
    if not os.path.isdir(d):
        continue
    for v in ("a", "b"):
        sd = os.path.join(d, v)
        log = os.path.join(sd, "confirm.log")
        if not os.path.exists(log):
            continue
        t = open(log).read()
        ok = "demo_without_patch rc=0" in t and "suite_with_patch rc=0" in t and re.search(r"demo_with_patch rc=(?!0)", t)
        name = "%s-%s-%s" % (PREFIX, ID, v)
        dst = os.path.join(V, "seeded", name)
        if not ok:
            print(name, "NOT CONFIRMED:", t.replace("\n", " | ")[:200])
            continue
        os.makedirs(dst, exist_ok=True)
        for f in ("patch.diff", "demo.rs", "notes.md", "confirm.log"):
            shutil.copy(os.path.join(sd, f), os.path.join(dst, f))
        notes = open(os.path.join(sd, "notes.md")).read()
        meta = {"id": name, "property": ID, "variant": "small in-place edit" if (v == "a" or PREFIX in ("r3", "r4", "r5", "r6", "r7", "r8")) else "refactoring-shaped change",
                "base_commit": head,
                "needs_to_manifest": " ".join(notes.split())[:900],
                "confirmed_by": ["git apply patch.diff on a clean worktree of %s" % head,
                                 "cargo test --offline (45 unit + 11 doc tests): pass with the patch",
                                 "cargo test --offline --test seed_demo: FAILS with the patch, passes without it"],
                "confirm_log": t.strip().split("\n")}
        json.dump(meta, open(os.path.join(dst, "meta.json"), "w"), indent=1)
        print(name, "stored")
