#!/usr/bin/env python3
"""Regenerate MANIFEST.json from contracts/units.toml + contracts/properties_meta.toml."""
import json, os, tomllib
V = os.path.dirname(os.path.dirname(os.path.abspath(__file__)))
reg = tomllib.load(open(os.path.join(V, "contracts", "units.toml"), "rb"))
meta = tomllib.load(open(os.path.join(V, "contracts", "properties_meta.toml"), "rb"))
props = [json.loads(l)["id"] for l in open(os.path.join(V, "properties.jsonl"))]
claimed = [p for p in props if p in meta.get("claim", {})]
checks = []
for p in claimed:
    m = meta["claim"][p]
    checks.append({
        "property_id": p,
        "quick_cmd": "python3 tools/check.py %s --tier quick" % p,
        "thorough_cmd": "python3 tools/check.py %s --tier thorough" % p,
        "evidence_file": "/verif/evidence/%s.json" % p,
        "replay_cmd_template": "cat {path}",
        "engine": "contracts",
        "level_claimed": {"category": "proof", "text": m["text"], "design_ref": m.get("design_ref", "DESIGN.md §5")},
        "level_note": m["note"],
        "technique": m.get("technique", "contract-based deductive verification (Verus on mechanically extracted functions; Kani/CBMC leaf contracts)"),
    })
na = [{"property_id": p, "reason": meta["not_applicable"][p]} for p in props if p in meta.get("not_applicable", {})]
missing = [p for p in props if p not in claimed and p not in meta.get("not_applicable", {})]
for p in missing:
    na.append({"property_id": p, "reason": "not yet covered by a registered check (work in progress)"})
man = {
    "version": 1,
    "setup_cmd": "python3 tools/setup.py",
    "hooks": {
        "guard": "cfg(kani)",
        "enable": "no source hooks in /repo: at check time the working tree is copied to a scratch directory and `#[cfg(kani)] #[path=\"/verif/kani/h_<file>.rs\"] mod verif_kani;` is appended to each module there; cfg(kani) is set only by `cargo kani`",
        "baseline_off_cmd": "cd /repo && cargo test --workspace --no-fail-fast --offline",
        "source_commits": [],
        "add_only": True,
    },
    "engines": [{"name": "contracts", "path": "/verif/tools/check.py", "serves_properties": claimed,
                 "kind_free_text": "contract-based deductive verification: Verus (SMT, unbounded) on functions extracted mechanically from the working tree and from its macro expansion; Kani/CBMC loop-free leaf contracts inside the real crate; bounded Kani stand-ins labelled bounded"}],
    "checks": checks,
    "not_applicable": na,
    "notes": meta.get("notes", ""),
}
json.dump(man, open(os.path.join(V, "MANIFEST.json"), "w"), indent=1)
print("claimed", claimed, "n/a", [x["property_id"] for x in na])
