"""Brace/string/comment-aware scanner for Rust source text.

Only what the extractor needs: locate `mod`, `impl`, `fn`, `struct`, `enum`
items and return their exact source text.  Nothing here interprets Rust; all
searches run on a *masked* copy of the text in which comments and the contents
of string/char literals are blanked, so braces and keywords inside them are
invisible, while offsets stay identical to the original text.
"""
import re


class AnchorLost(Exception):
    """An item the contracts are keyed on is no longer where it was."""


def mask(src: str, strings: bool = True) -> str:
    out = list(src)
    i, n = 0, len(src)

    def blank(a, b, is_string=False):
        if is_string and not strings:
            return
        for k in range(a, b):
            if out[k] != "\n":
                out[k] = " "

    while i < n:
        c = src[i]
        nxt = src[i + 1] if i + 1 < n else ""
        if c == "/" and nxt == "/":
            j = src.find("\n", i)
            j = n if j < 0 else j
            blank(i, j)
            i = j
        elif c == "/" and nxt == "*":
            depth, j = 1, i + 2
            while j < n and depth:
                if src.startswith("/*", j):
                    depth += 1
                    j += 2
                elif src.startswith("*/", j):
                    depth -= 1
                    j += 2
                else:
                    j += 1
            blank(i, j)
            i = j
        elif c == '"' or (c == "b" and nxt == '"') or (c == "r" and nxt in '"#') or (
            c == "b" and nxt == "r" and i + 2 < n and src[i + 2] in '"#'
        ):
            # string literal (plain, byte, raw)
            j = i
            while src[j] in "br":
                j += 1
            if src[j] == "#" or (j > i and "r" in src[i:j]):
                hashes = 0
                while src[j] == "#":
                    hashes += 1
                    j += 1
                if src[j] != '"':
                    i += 1
                    continue
                end = src.find('"' + "#" * hashes, j + 1)
                end = n if end < 0 else end + 1 + hashes
                blank(j + 1, end - 1 - hashes, True)
                i = end
            else:
                k = j + 1
                while k < n and src[k] != '"':
                    k += 2 if src[k] == "\\" else 1
                blank(j + 1, k, True)
                i = k + 1
        elif c == "'":
            # char literal or lifetime
            m = re.match(r"'(\\.[^']*|[^'\\])'", src[i:])
            if m:
                blank(i + 1, i + m.end() - 1, True)
                i += m.end()
            else:
                i += 1
        elif (c.isalnum() or c == "_"):
            j = i
            while j < n and (src[j].isalnum() or src[j] == "_"):
                j += 1
            i = j
        else:
            i += 1
    return "".join(out)


def match_close(masked: str, open_pos: int) -> int:
    """Index of the bracket matching the one at open_pos."""
    pairs = {"{": "}", "(": ")", "[": "]"}
    o = masked[open_pos]
    c = pairs[o]
    depth = 0
    for k in range(open_pos, len(masked)):
        ch = masked[k]
        if ch == o:
            depth += 1
        elif ch == c:
            depth -= 1
            if depth == 0:
                return k
    raise AnchorLost("unbalanced %s at %d" % (o, open_pos))


class Source:
    def __init__(self, text: str, label: str):
        self.text = text
        self.masked = mask(text)
        self.label = label

    # --- scopes -----------------------------------------------------------
    def whole(self):
        return (0, len(self.text))

    def _depth0_positions(self, rng, regex):
        """Matches of regex inside rng that sit at brace depth 0 relative to rng."""
        a, b = rng
        res = []
        depth = 0
        m = self.masked
        k = a
        rx = re.compile(regex)
        # walk once computing depth; test regex at candidate keyword starts
        cand = {mm.start(): mm for mm in rx.finditer(m, a, b)}
        while k < b:
            ch = m[k]
            if k in cand and depth == 0:
                res.append(cand[k])
            if ch == "{":
                depth += 1
            elif ch == "}":
                depth -= 1
            k += 1
        return res

    def find_mod(self, rng, name):
        ms = self._depth0_positions(rng, r"\bmod\s+%s\s*\{" % re.escape(name))
        if len(ms) != 1:
            raise AnchorLost("%s: mod %s found %d times" % (self.label, name, len(ms)))
        op = ms[0].end() - 1
        return (op + 1, match_close(self.masked, op))

    def find_impls(self, rng, header_regex):
        """Body ranges of all depth-0 impls whose header matches header_regex."""
        hits = []
        for mm in self._depth0_positions(rng, r"\b(?:impl|trait)\b"):
            op = self.masked.find("{", mm.start())
            header = " ".join(self.masked[mm.start():op].split())
            if re.fullmatch(header_regex, header):
                hits.append((op + 1, match_close(self.masked, op)))
        return hits

    def find_impl(self, rng, header_regex):
        """Body range of the unique depth-0 impl whose header matches header_regex."""
        hits = self.find_impls(rng, header_regex)
        if len(hits) != 1:
            raise AnchorLost("%s: impl /%s/ found %d times" % (self.label, header_regex, len(hits)))
        return hits[0]

    def find_fn_in_impls(self, rng, header_regex, name):
        """fn `name` in whichever matching impl block defines it (a type may have several impl blocks)."""
        found = []
        for r in self.find_impls(rng, header_regex):
            try:
                found.append(self.find_fn(r, name))
            except AnchorLost:
                pass
        if len(found) != 1:
            raise AnchorLost("%s: fn %s in impl /%s/ found %d times" % (self.label, name, header_regex, len(found)))
        return found[0]

    def find_fn(self, rng, name):
        """(sig_start, body_open, body_close) of the unique depth-0 fn `name` in rng."""
        ms = self._depth0_positions(rng, r"\bfn\s+%s\b" % re.escape(name))
        if len(ms) != 1:
            raise AnchorLost("%s: fn %s found %d times" % (self.label, name, len(ms)))
        s = ms[0].start()
        # include qualifiers (pub, pub(crate), const, unsafe) on the same item
        pre = self.masked[rng[0]:s]
        q = re.search(r"((?:pub(?:\s*\([^)]*\))?\s+)?(?:const\s+)?(?:unsafe\s+)?)$", pre)
        s -= len(q.group(1)) if q else 0
        # body open brace: first '{' at paren depth 0 after the name
        k = ms[0].end()
        depth = 0
        while True:
            ch = self.masked[k]
            if ch in "(<[":
                depth += 1 if ch != "<" else 0
            if ch in ")]":
                depth -= 1
            if ch == "{" and depth == 0:
                break
            if ch == ";" and depth == 0:
                raise AnchorLost("%s: fn %s has no body" % (self.label, name))
            k += 1
        return (s, k, match_close(self.masked, k))

    def find_type(self, rng, name):
        """(start, end) of `struct|enum name {...}` / `struct name;` at depth 0, without attributes."""
        ms = self._depth0_positions(
            rng, r"(?:pub(?:\s*\([^)]*\))?\s+)?(?:struct|enum)\s+%s\b" % re.escape(name))
        if len(ms) != 1:
            raise AnchorLost("%s: type %s found %d times" % (self.label, name, len(ms)))
        s = ms[0].start()
        k = ms[0].end()
        while self.masked[k] not in "{;(":
            k += 1
        if self.masked[k] == ";":
            return (s, k + 1)
        e = match_close(self.masked, k)
        if self.masked[k] == "(":
            e = self.masked.find(";", e)
        return (s, e + 1)

    def find_alias(self, rng, name):
        ms = self._depth0_positions(rng, r"(?:pub\s+)?type\s+%s\b[^=;]*=" % re.escape(name))
        if len(ms) != 1:
            raise AnchorLost("%s: type alias %s found %d times" % (self.label, name, len(ms)))
        s = ms[0].start()
        return (s, self.masked.find(";", s) + 1)

    def find_const(self, rng, name):
        ms = self._depth0_positions(rng, r"(?:pub\s+)?const\s+%s\s*:" % re.escape(name))
        if len(ms) != 1:
            raise AnchorLost("%s: const %s found %d times" % (self.label, name, len(ms)))
        s = ms[0].start()
        return (s, self.masked.find(";", s) + 1)


def strip_attrs_and_docs(text: str) -> str:
    """Remove #[...] attributes and comments from an item's text (types only)."""
    m = mask(text)
    mc = mask(text, strings=False)  # comments blanked, strings kept
    out = []
    k = 0
    n = len(text)
    while k < n:
        if m[k] == "#" and re.match(r"#\s*!?\s*\[", m[k:]):
            op = m.find("[", k)
            k = match_close(m, op) + 1
            continue
        out.append(mc[k])
        k += 1
    s = "".join(out)
    s = re.sub(r"[ \t]+\n", "\n", s)
    s = re.sub(r"\n\s*\n+", "\n", s)
    return s
