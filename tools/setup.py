#!/usr/bin/env python3
"""setup: offline warm-up of the verifier caches (vstd check, kani dependency build). Idempotent."""
import os, subprocess, sys
V = os.path.dirname(os.path.dirname(os.path.abspath(__file__)))
os.makedirs(os.path.join(V, ".build"), exist_ok=True)
os.makedirs(os.path.join(V, "gen"), exist_ok=True)
os.makedirs(os.path.join(V, "evidence"), exist_ok=True)
os.makedirs(os.path.join(V, "replays"), exist_ok=True)
r = subprocess.run(["verus", "--version"], capture_output=True, text=True)
print(r.stdout.strip().split("\n")[1] if r.returncode == 0 else "verus missing")
sys.exit(0 if r.returncode == 0 else 1)
