#!/usr/bin/env python3
"""Run checks against a seeded change on a scratch copy of /repo (never touches /repo).
   seedrun.py <seed-id> <PROP> [<PROP> ...]"""
import os, shutil, subprocess, sys
V = os.path.dirname(os.path.dirname(os.path.abspath(__file__)))
seed = sys.argv[1]
props = sys.argv[2:]
d = "/var/tmp/nfverif/seed_%s_%d" % (seed, os.getpid())
os.makedirs(os.path.dirname(d), exist_ok=True)
subprocess.run(["rsync", "-a", "--exclude", "target", "--exclude", ".git", "/repo/", d + "/"], check=True)
r = subprocess.run(["patch", "-p1", "-s", "-i", os.path.join(V, "seeded", seed, "patch.diff")], cwd=d)
if r.returncode != 0:
    print("patch failed"); sys.exit(3)
try:
    for p in props:
        r = subprocess.run([sys.executable, os.path.join(V, "tools", "check.py"), p, "--repo", d, "--no-evidence"] + os.environ.get("SEEDRUN_ARGS", "").split(),
                           capture_output=True, text=True)
        lines = [l for l in r.stdout.split("\n") if l.startswith(("VIOLATION", "UNDECIDED", p + ":"))]
        print("== %s on %s: exit %d" % (p, seed, r.returncode))
        for l in lines:
            print("   " + l[:400])
finally:
    shutil.rmtree(d, ignore_errors=True)
