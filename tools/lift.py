#!/usr/bin/env python3
"""Lambda lifting of `many0(complete(|i| E))(i)` (rule R17).

Verus has no mutable captures and no specification for an `impl FnMut` returned by a generic combinator, so the IPFIX
set loop -- a closure capturing `&mut parser`, handed to nom's `complete`, handed to nom's `many0` -- cannot be put
under contract as written.  This module builds, mechanically and on every run, a *synthetic source text* of four
first-order functions that is the closure-converted form of that expression:

    NAME          the body of the map_res closure of the given function (from /repo, via rustc's macro expansion),
                  with `many0(complete(CLO))(ARG)` replaced by the call `NAME__many0(ARG, <captures>)`
    NAME__many0   the body of the closure returned by nom::multi::many0, text taken from the nom source in the cargo
                  registry (the version pinned by /repo/Cargo.lock), with `f.parse(X)` -> `NAME__complete(X, <captures>)`
    NAME__complete  the body of the closure returned by nom::combinator::complete, same origin,
                  with `f.parse(X)` -> `NAME__elem(X, <captures>)`
    NAME__elem    CLO's body (from /repo)

Monomorphisation of the nom text for I = &[u8], E = nom::error::Error<&[u8]> (every substitution is logged):
    X.input_len() -> X.len()            (impl InputLength for &[T]: self.len())
    X.clone()     -> X                  (&[u8] is Copy)
    E::from_error_kind(a, k) -> nom::error::Error::new(a, k)    (impl ParseError for Error: Error { input, code })
    Err::V -> nom::Err::V ; ErrorKind::V -> nom::error::ErrorKind::V ; crate::lib::std::vec::Vec -> Vec
A `mut x` closure parameter becomes the parameter `x__in` plus `let mut x = x__in;`.  Nothing else is changed; the synthetic text is then treated by extract.py exactly like a file of /repo (`//@ fn lifted:<name> ...`),
so contracts, hints, hashes and the callee ledger work as for any other function."""
import glob, hashlib, os, re
from rustscan import mask, Source, AnchorLost

LIFTS = {
    # nom::multi::count itself (not a use of it in /repo): the closure it returns, made a first-order function over
    # (f, count, i) so that the TRUSTED specification of `count` in contracts/verus/nom_prims.rs becomes an obligation
    "nom_count": {"kind": "nomfn", "file": "src/multi/mod.rs", "fn": "count", "name": "vf_nom_count",
                  "sig": r"pub fn count<I, O, E, F>\(mut f: F, count: usize\) -> impl FnMut\(I\) -> IResult<I, Vec<O>, E>",
                  "generics": "<'a, O, F: Fn(&'a [u8]) -> nom::IResult<&'a [u8], O>>", "params": "f: F, count: usize", "ret": "Vec<O>"},
    "nom_many0": {"kind": "nomfn", "file": "src/multi/mod.rs", "fn": "many0", "name": "vf_nom_many0",
                  "sig": r"pub fn many0<I, O, E, F>\(mut f: F\) -> impl FnMut\(I\) -> IResult<I, Vec<O>, E>",
                  "generics": "<'a, O, F: Fn(&'a [u8]) -> nom::IResult<&'a [u8], O>>", "params": "f: F", "ret": "Vec<O>"},
    "nom_complete": {"kind": "nomfn", "file": "src/combinator/mod.rs", "fn": "complete", "name": "vf_nom_complete",
                     "sig": r"pub fn complete<I: Clone, O, E: ParseError<I>, F>\(mut f: F\) -> impl FnMut\(I\) -> IResult<I, O, E>",
                     "generics": "<'a, O, F: Fn(&'a [u8]) -> nom::IResult<&'a [u8], O>>", "params": "f: F", "ret": "O"},
    "nom_cond": {"kind": "nomfn", "file": "src/combinator/mod.rs", "fn": "cond", "name": "vf_nom_cond",
                 "sig": r"pub fn cond<I, O, E: ParseError<I>, F>\(\s*b: bool,\s*mut f: F,\s*\) -> impl FnMut\(I\) -> IResult<I, Option<O>, E>",
                 "generics": "<'a, O, F: Fn(&'a [u8]) -> nom::IResult<&'a [u8], O>>", "params": "b: bool, f: F", "ret": "Option<O>"},
    "nom_map": {"kind": "nomfn", "file": "src/combinator/mod.rs", "fn": "map", "name": "vf_nom_map",
                "sig": r"pub fn map<I, O1, O2, E, F, G>\(mut parser: F, mut f: G\) -> impl FnMut\(I\) -> IResult<I, O2, E>",
                "generics": "<'a, O1, O2, F: Fn(&'a [u8]) -> nom::IResult<&'a [u8], O1>, G: Fn(O1) -> O2>", "params": "parser: F, f: G", "ret": "O2"},
    "ipfix_sets": {
        "src": "expanded", "mod": "variable_versions::ipfix", "impl": r"impl<'nom> IPFix", "fn": "parse_be",
        "select": ("mapres", 0),
        "name": "vf_ipfix_sets", "captures": [("parser", "&mut IPFixParser")], "item": "FlowSet",
    },
    # the two field loops of a V9 options data record: closures capturing `&mut field` (a slice iterator over the
    # template's scope / option field specifiers)
    "v9_od_scope": {
        "src": "expanded", "mod": "variable_versions::v9", "impl": r"impl<'nom> OptionsData", "fn": "parse_be",
        "select": ("many0", 0), "generics": "<'a, 'b>",
        "name": "vf_v9_od_scope", "captures": [("field", "&mut std::slice::Iter<'b, OptionsTemplateScopeField>")],
        "item": "ScopeDataField",
    },
    "v9_od_opts": {
        "src": "expanded", "mod": "variable_versions::v9", "impl": r"impl<'nom> OptionsData", "fn": "parse_be",
        "select": ("many0", 1), "generics": "<'a, 'b>",
        "name": "vf_v9_od_opts", "captures": [("field", "&mut std::slice::Iter<'b, TemplateField>")],
        "item": "OptionDataField",
    },
}


def match_close(m, op):
    pairs = {"(": ")", "[": "]", "{": "}"}
    depth = 0
    for k in range(op, len(m)):
        if m[k] in pairs:
            depth += 1
        elif m[k] in ")]}":
            depth -= 1
            if depth == 0:
                return k
    raise AnchorLost("unbalanced text")


def split_top_comma(text):
    mi = mask(text)
    depth = 0
    for k, ch in enumerate(mi):
        if ch in "([{":
            depth += 1
        elif ch in ")]}":
            depth -= 1
        elif ch == "," and depth == 0:
            return text[:k], text[k + 1:]
    raise AnchorLost("no top-level comma")


def nom_dir(repo):
    lock = open(os.path.join(repo, "Cargo.lock")).read()
    m = re.search(r'name = "nom"\nversion = "([^"]+)"', lock)
    if not m:
        raise AnchorLost("nom not in Cargo.lock")
    ver = m.group(1)
    cands = glob.glob(os.path.expanduser("~/.cargo/registry/src/*/nom-%s" % ver)) + \
        glob.glob(os.path.join(os.environ.get("CARGO_HOME", "/nonexistent"), "registry/src/*/nom-%s" % ver))
    if not cands:
        raise AnchorLost("nom-%s source not in the cargo registry" % ver)
    return ver, cands[0]


def nom_closure_body(path, fname):
    """text of `move |..| { BODY }` returned by `pub fn fname` -> (params, BODY)"""
    s = Source(open(path).read(), path)
    fs, bo, bc = s.find_fn(s.whole(), fname)
    body = s.text[bo + 1:bc]
    m = mask(body)
    mm = re.search(r"move\s*\|([^|]*)\|\s*\{", m)
    if not mm:
        raise AnchorLost("nom %s: closure not found" % fname)
    ob = mm.end() - 1
    cb = match_close(m, ob)
    if m[cb + 1:].strip():
        raise AnchorLost("nom %s: text after the returned closure" % fname)
    if m[:mm.start()].strip():
        raise AnchorLost("nom %s: statements before the returned closure" % fname)
    return body[mm.start(1):mm.end(1)].strip(), body[ob + 1:cb], s.text[fs:bc + 1]


def mono(text, log):
    subs = [
        (r"\b(\w+)\.input_len\(\)", r"\1.len()", "input_len->len"),
        (r"\b(\w+)\.clone\(\)", r"\1", "clone of &[u8]->copy"),
        (r"\bE::from_error_kind\(", "nom::error::Error::new(", "E::from_error_kind->Error::new"),
        (r"(?<![:\w])Err::(\w+)", r"nom::Err::\1", "Err::V->nom::Err::V"),
        (r"(?<![:\w])ErrorKind::(\w+)", r"nom::error::ErrorKind::\1", "ErrorKind path"),
        (r"crate::lib::std::vec::Vec", "Vec", "Vec path"),
    ]
    # comments out (they may contain apostrophes etc.); code is untouched
    text = re.sub(r"//[^\n]*", "", text)
    for rx, rep, name in subs:
        text, n = re.subn(rx, rep, text)
        if n:
            log[name] = log.get(name, 0) + n
    return text


def build_nomfn(name, repo):
    """nom combinator `pub fn NAME(mut f: F, <args>) -> impl FnMut(I) -> ..{ move |i: I| { BODY } }`  ->
    `fn vf_NAME<'a, O, F: Fn(&'a [u8]) -> IResult<&'a [u8], O>>(f: F, <args>, i: &'a [u8]) -> IResult<&'a [u8], Vec<O>> { BODY }`
    (closure conversion: the captured `f` and `count` become parameters).  Monomorphisation as in `mono`, plus
    f.parse(X) -> f(X) (impl Parser for F: FnMut(I) -> IResult: `self(i)`), E::append(_, _, e) -> e (impl ParseError for
    Error: `other`), `for _ in` -> `for _k in` (Verus has no wildcard loop pattern), crate::lib::std::mem -> core::mem."""
    spec = LIFTS[name]
    ver, nd = nom_dir(repo)
    path = os.path.join(nd, spec["file"])
    log = {}
    p0, b0, raw0 = nom_closure_body(path, spec["fn"])
    pm0 = re.match(r"((?:mut\s+)?\w+)\s*:\s*I$", p0)       # a `mut x` parameter is kept (extract.py: `mutparam`, R19)
    if not pm0:
        raise AnchorLost("nom %s: closure parameter changed shape" % spec["fn"])
    whole = open(path).read()
    sig = re.search(spec["sig"], whole)
    if not sig:
        raise AnchorLost("nom %s: signature changed shape" % spec["fn"])
    b = mono(b0, log)
    extra = [
        (r"\b(f|parser)\.parse\(", r"\1(", "f.parse(x)->f(x)", 1),
        (r"\bE::append\(\s*\w+\s*,\s*nom::error::ErrorKind::\w+\s*,\s*(\w+)\s*\)", r"\1", "E::append(_,_,e)->e", None),
        (r"\bfor _ in\b", "for _k in", "for _->for _k", None),
        (r"crate::lib::std::mem::", "core::mem::", "mem path", None),
    ]
    for rx, rep, nm, want in extra:
        b, n = re.subn(rx, rep, b)
        if want is not None and n != want:
            raise AnchorLost("nom %s text: expected %d x %s, found %d" % (spec["fn"], want, nm, n))
        if n:
            log[nm] = n
    consts = ""
    for c in sorted(set(re.findall(r"\b[A-Z][A-Z0-9_]{3,}\b", mask(b)))):
        cm = re.search(r"^const %s: usize = [^;]+;" % c, whole, re.M)
        if not cm:
            raise AnchorLost("nom constant %s not found" % c)
        consts += cm.group(0) + "\n"
    out = ("// synthetic source built by tools/lift.py (build_nomfn) from nom-%s %s\n%s"
           "fn %s%s(%s, %s: &'a [u8]) -> nom::IResult<&'a [u8], %s> {%s}\n"
           % (ver, spec["file"], consts, spec["name"], spec["generics"], spec["params"], pm0.group(1), spec["ret"], b))
    meta = {"lift": name, "from": "nom-%s %s fn %s" % (ver, spec["file"], spec["fn"]), "nom_version": ver,
            "nom_%s_sha256" % spec["fn"]: hashlib.sha256(raw0.encode()).hexdigest()[:16], "monomorphisation": log}
    return out, meta


def build(name, repo, expanded_text):
    """-> (synthetic source text, meta dict)"""
    spec = LIFTS[name]
    if spec.get("kind") == "nomfn":
        return build_nomfn(name, repo)
    s = Source(expanded_text, "expanded")
    rng = s.whole()
    for part in spec["mod"].split("::"):
        rng = s.find_mod(rng, part)
    fs, bo, bc = s.find_fn_in_impls(rng, spec["impl"], spec["fn"])
    body = s.text[bo:bc + 1]
    kind, nth = spec.get("select", ("mapres", 0))
    if kind == "mapres":
        m = mask(body)
        mm = re.search(r"\bmap_res\(", m)
        if not mm or m.count("map_res(") != 1:
            raise AnchorLost("lift %s: expected exactly one map_res in %s" % (name, spec["fn"]))
        op = mm.end() - 1
        cl = match_close(m, op)
        p_arg, clo = split_top_comma(body[op + 1:cl])
        cm = re.match(r"\s*\|\s*(\w+)\s*\|\s*(.*)$", clo, re.S)
        if not cm:
            raise AnchorLost("lift %s: map_res closure not `|x| ..`" % name)
        x, f_body = cm.group(1), cm.group(2).strip()
        fm = mask(f_body)
        m0 = re.search(r"\bmany0\(\s*complete\(", fm)
        if not m0 or fm.count("many0(") != 1:
            raise AnchorLost("lift %s: map_res closure is not many0(complete(..))" % name)
    else:
        # the nth `many0(complete(..))(ARG)` expression of the function body itself
        x, f_body = None, body
        fm = mask(f_body)
        ms = list(re.finditer(r"\bmany0\(\s*complete\(", fm))
        if nth >= len(ms):
            raise AnchorLost("lift %s: many0(complete(..)) #%d not found in %s" % (name, nth, spec["fn"]))
        m0 = ms[nth]
    o1 = fm.index("(", m0.start())
    c1 = match_close(fm, o1)
    o2 = fm.index("(", o1 + 1)
    c2 = match_close(fm, o2)
    if fm[c2 + 1:c1].strip():
        raise AnchorLost("lift %s: many0 has more than the complete(..) argument" % name)
    elem_clo = f_body[o2 + 1:c2].strip()
    if mask(elem_clo).startswith("{") and match_close(mask(elem_clo), 0) == len(elem_clo) - 1:
        elem_clo = elem_clo[1:-1].strip()          # nom-derive wraps the user's closure in a block
    em = re.match(r"\|\s*(\w+)\s*\|\s*(.*)$", elem_clo, re.S)
    if not em:
        raise AnchorLost("lift %s: element parser is not a one-parameter closure" % name)
    ep, e_body = em.group(1), em.group(2).strip()
    am = re.match(r"\s*\(\s*(\w+)\s*\)", fm[c1 + 1:])
    if not am:
        raise AnchorLost("lift %s: many0(..) not applied directly" % name)
    arg = am.group(1)
    caps = spec["captures"]
    cap_params = "".join(", %s: %s" % c for c in caps)
    cap_args = "".join(", %s" % c[0] for c in caps)
    nm = spec["name"]
    item = spec["item"]
    top_body = f_body[:m0.start()] + "%s__many0(%s%s)" % (nm, arg, cap_args) + f_body[c1 + 1 + am.end():]
    gen = spec.get("generics", "<'a>")
    ver, nd = nom_dir(repo)
    log = {}
    p0, b0, raw0 = nom_closure_body(os.path.join(nd, "src/multi/mod.rs"), "many0")
    p1, b1, raw1 = nom_closure_body(os.path.join(nd, "src/combinator/mod.rs"), "complete")
    pm0 = re.match(r"(mut\s+)?(\w+)\s*:\s*I$", p0)
    pm1 = re.match(r"(mut\s+)?(\w+)\s*:\s*I$", p1)
    if not pm0 or not pm1:
        raise AnchorLost("nom closure parameters changed shape")

    def sub_parse(text, callee):
        t, n = re.subn(r"\bf\.parse\(", "%s(" % callee, text)
        if n != 1:
            raise AnchorLost("nom text: expected one f.parse(..)")
        # add the captured arguments to that call
        k = t.index(callee + "(") + len(callee)
        ce = match_close(mask(t), k)
        return t[:ce] + cap_args + t[ce:]
    b0 = sub_parse(mono(b0, log), nm + "__complete")
    b1 = sub_parse(mono(b1, log), nm + "__elem")
    err = "nom::Err<nom::error::Error<&'a [u8]>>"
    out = []
    out.append("// synthetic source built by tools/lift.py (rule R17) -- see the header of that file\n")
    if kind == "mapres":
        out.append("fn %s%s(%s: &'a [u8]%s) -> Result<Vec<%s>, %s> {\n    %s\n}\n"
                   % (nm, gen, x, cap_params, item, err, top_body))
    def fn_of(suffix, pm, ret, b):
        # a `mut x: I` closure parameter becomes an immutable parameter `x__in` and a local `let mut x = x__in;`
        # (Verus resolves a `mut` parameter inside `ensures` to its final value)
        if pm.group(1):
            return ("fn %s__%s%s(%s__in: &'a [u8]%s) -> %s {\n    let mut %s = %s__in;%s}\n"
                    % (nm, suffix, gen, pm.group(2), cap_params, ret, pm.group(2), pm.group(2), b))
        return "fn %s__%s%s(%s: &'a [u8]%s) -> %s {%s}\n" % (nm, suffix, gen, pm.group(2), cap_params, ret, b)
    out.append(fn_of("many0", pm0, "nom::IResult<&'a [u8], Vec<%s>>" % item, b0))
    out.append(fn_of("complete", pm1, "nom::IResult<&'a [u8], %s>" % item, b1))
    out.append("fn %s__elem%s(%s: &'a [u8]%s) -> nom::IResult<&'a [u8], %s> {\n    %s\n}\n"
               % (nm, gen, ep, cap_params, item, e_body))
    meta = {"lift": name, "from": "%s %s %s::%s (%s #%d)" % (spec["src"], spec["mod"], spec["impl"], spec["fn"], kind, nth),
            "nom_version": ver,
            "nom_many0_sha256": hashlib.sha256(raw0.encode()).hexdigest()[:16],
            "nom_complete_sha256": hashlib.sha256(raw1.encode()).hexdigest()[:16],
            "monomorphisation": log}
    return "".join(out), meta


if __name__ == "__main__":
    import sys
    txt, meta = build(sys.argv[1], sys.argv[2], open(sys.argv[3]).read() if len(sys.argv) > 3 else "")
    print(txt)
    print(meta, file=sys.stderr)
