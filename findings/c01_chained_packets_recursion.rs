use netflow_parser::NetflowParser;
#[test]
fn long_chain_fits_a_2mib_stack() {
    // 4095 header-only IPFIX messages (16 bytes each) = 65,520 bytes, one UDP datagram
    let mut pkt: Vec<u8> = vec![];
    for _ in 0..4095 { pkt.extend_from_slice(&[0, 10, 0, 16, 0, 0, 0, 1, 0, 0, 0, 1, 0, 0, 0, 1]); }
    let h = std::thread::Builder::new().stack_size(2 * 1024 * 1024).spawn(move || {
        NetflowParser::default().parse_bytes(&pkt).len()
    }).unwrap();
    assert_eq!(h.join().unwrap(), 4095);
}
