use netflow_parser::{NetflowParser, NetflowPacket};

// IPFIX: template 256 with ONE variable-length field (interfaceName, 65535), data set with one record "eth0" (prefix 4)
#[test]
fn ipfix_variable_length_field_reexports_its_prefix() {
    let tmpl: Vec<u8> = vec![0,2, 0,12,  1,0, 0,1,  0,82, 0xff,0xff];
    let mut data: Vec<u8> = vec![1,0, 0,12];
    data.push(4); data.extend_from_slice(b"eth0");
    data.extend_from_slice(&[0,0,0]);
    assert_eq!(data.len(), 12);
    let len = 16 + tmpl.len() + data.len();
    let mut m: Vec<u8> = vec![0,10, (len >> 8) as u8, len as u8, 0,0,0,1, 0,0,0,2, 0,0,0,3];
    m.extend_from_slice(&tmpl); m.extend_from_slice(&data);
    let mut p = NetflowParser::default();
    let r = p.parse_bytes(&m);
    assert_eq!(r.len(), 1, "{:?}", r);
    let ipfix = match &r[0] { NetflowPacket::IPFix(x) => x, o => panic!("{:?}", o) };
    println!("{:?}", ipfix.flowsets[1].body);
    assert_eq!(ipfix.to_be_bytes().unwrap(), m, "re-export differs from the header.length bytes received");
}
