use netflow_parser::NetflowParser;
#[test]
fn v9_zero_size_template_does_not_panic() {
    let pkt: Vec<u8> = vec![
        0, 9, 0, 2, 0, 0, 0, 1, 0, 0, 0, 2, 0, 0, 0, 3, 0, 0, 0, 4, // header, count = 2
        0, 0, 0, 12, 1, 0, 0, 1, 0, 1, 0, 0,                       // template 256: one field of length 0
        1, 0, 0, 8, 0xde, 0xad, 0xbe, 0xef,                        // data flowset for template 256
    ];
    assert_eq!(pkt.len(), 40);
    let mut p = NetflowParser::default();
    let out = p.parse_bytes(&pkt);
    assert_eq!(out.len(), 1);
}
