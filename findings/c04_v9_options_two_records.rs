use netflow_parser::{NetflowParser, NetflowPacket};
use netflow_parser::variable_versions::v9::FlowSetBody;

// V9 packet: options template 256 (scope: System(1) len 4; option: field 34 SAMPLING_INTERVAL len 4), then an options
// data flowset with TWO records of 8 bytes each.
#[test]
fn v9_options_data_two_records() {
    let mut p: Vec<u8> = vec![0,9, 0,2, 0,0,0,1, 0,0,0,2, 0,0,0,3, 0,0,0,4];
    // options template flowset: id=1, length=4+ (2+2+2 + 4 + 4) = 18 -> pad to 20
    p.extend_from_slice(&[0,1, 0,20,  1,0, 0,4, 0,4,  0,1, 0,4,  0,34, 0,4,  0,0]);
    // options data flowset: id=256, length = 4 + 16 = 20
    p.extend_from_slice(&[1,0, 0,20,  0,0,0,7, 0,0,0,100,   0,0,0,8, 0,0,0,200]);
    let mut parser = NetflowParser::default();
    let r = parser.parse_bytes(&p);
    assert_eq!(r.len(), 1, "{:?}", r);
    let v9 = match &r[0] { NetflowPacket::V9(x) => x, o => panic!("{:?}", o) };
    assert_eq!(v9.flowsets.len(), 2);
    match &v9.flowsets[1].body {
        FlowSetBody::OptionsData(od) => {
            println!("{:?}", od);
            // two records were sent: 2 scope values and 2 option values must be reported, nothing left as padding
            assert_eq!(od.padding.len(), 0, "second record ended up in padding: {:?}", od.padding);
        }
        o => panic!("{:?}", o),
    }
}
