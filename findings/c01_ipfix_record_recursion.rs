use netflow_parser::{NetflowPacket, NetflowParser};
#[test]
fn ipfix_many_short_records_fit_a_2mib_stack() {
    let n: usize = 8000;
    let mut pkt: Vec<u8> = vec![];
    // message 1: template 256 with one 1-byte field (type 4 = protocolIdentifier is decoded via enum; use 5 = ipClassOfService)
    let tmpl: Vec<u8> = vec![0, 2, 0, 12, 1, 0, 0, 1, 0, 5, 0, 1];
    let len1 = 16 + tmpl.len();
    pkt.extend_from_slice(&[0, 10, (len1 >> 8) as u8, len1 as u8, 0, 0, 0, 1, 0, 0, 0, 1, 0, 0, 0, 1]);
    pkt.extend_from_slice(&tmpl);
    // message 2: data set 256 with n one-byte records
    let set_len = 4 + n;
    let len2 = 16 + set_len;
    pkt.extend_from_slice(&[0, 10, (len2 >> 8) as u8, len2 as u8, 0, 0, 0, 2, 0, 0, 0, 2, 0, 0, 0, 1]);
    pkt.extend_from_slice(&[1, 0, (set_len >> 8) as u8, set_len as u8]);
    pkt.extend(std::iter::repeat(7u8).take(n));
    let h = std::thread::Builder::new().stack_size(2 * 1024 * 1024).spawn(move || {
        let mut p = NetflowParser::default();
        let out = p.parse_bytes(&pkt);
        match &out[1] { NetflowPacket::IPFix(m) => m.flowsets.len(), _ => 99 }
    }).unwrap();
    assert_eq!(h.join().unwrap(), 1);
}
