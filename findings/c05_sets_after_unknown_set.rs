use netflow_parser::{NetflowParser, NetflowPacket};

// One IPFIX message: [data set for id 300 -- no template known][template set: template 256][data set 256]
#[test]
fn ipfix_sets_after_an_unknown_set_are_processed() {
    let unknown: Vec<u8> = vec![1,44, 0,8,  9,9,9,9];
    let tmpl: Vec<u8> = vec![0,2, 0,12,  1,0, 0,1,  0,8, 0,4];
    let data: Vec<u8> = vec![1,0, 0,8,  10,0,0,1];
    let len = 16 + unknown.len() + tmpl.len() + data.len();
    let mut m: Vec<u8> = vec![0,10, (len >> 8) as u8, len as u8, 0,0,0,1, 0,0,0,2, 0,0,0,3];
    m.extend_from_slice(&unknown); m.extend_from_slice(&tmpl); m.extend_from_slice(&data);
    let mut p = NetflowParser::default();
    let r = p.parse_bytes(&m);
    assert_eq!(r.len(), 1, "{:?}", r);
    let ipfix = match &r[0] { NetflowPacket::IPFix(x) => x, o => panic!("{:?}", o) };
    println!("sets reported: {}", ipfix.flowsets.len());
    // C07: the message simply omits THAT set; C05: all (other) sets inside the message length are processed
    assert_eq!(ipfix.flowsets.len(), 2, "template set and data set after the unknown set were dropped");
    assert!(p.ipfix_parser.templates.contains_key(&256), "template 256 inside the message length was not learnt");
}
