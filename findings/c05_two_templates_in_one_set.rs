use netflow_parser::{NetflowParser, NetflowPacket};
use netflow_parser::variable_versions::ipfix::FlowSetBody;

// One IPFIX template set carrying TWO template records (256: one field; 257: one field) -- normal exporter behaviour.
#[test]
fn ipfix_template_set_with_two_records_defines_two_templates() {
    let tmpl: Vec<u8> = vec![0,2, 0,20,   1,0, 0,1, 0,8, 0,4,   1,1, 0,1, 0,12, 0,4];
    let len = 16 + tmpl.len();
    let mut m: Vec<u8> = vec![0,10, (len >> 8) as u8, len as u8, 0,0,0,1, 0,0,0,2, 0,0,0,3];
    m.extend_from_slice(&tmpl);
    let mut p = NetflowParser::default();
    let r = p.parse_bytes(&m);
    assert_eq!(r.len(), 1, "{:?}", r);
    let ipfix = match &r[0] { NetflowPacket::IPFix(x) => x, o => panic!("{:?}", o) };
    if let FlowSetBody::Template(t) = &ipfix.flowsets[0].body { println!("reported: id {} with {} fields", t.template_id, t.fields.len()); }
    assert!(p.ipfix_parser.templates.contains_key(&256));
    assert_eq!(p.ipfix_parser.templates[&256].fields.len(), 1, "template 256 was sent with ONE field");
    assert!(p.ipfix_parser.templates.contains_key(&257), "template 257 (second record of the set) was not learnt");
}
