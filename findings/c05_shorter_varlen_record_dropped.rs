use netflow_parser::{NetflowParser, NetflowPacket};
use netflow_parser::variable_versions::ipfix::FlowSetBody;

// IPFIX: template 256 with ONE variable-length field (element 82 interfaceName, length 65535), then a data set with two
// records: the first value is 10 bytes long, the second 2 bytes long.  12 + 4 = 16 bytes of set body... (1+10)+(1+2)=14, +2 pad
#[test]
fn ipfix_second_shorter_variable_length_record_is_decoded() {
    let tmpl: Vec<u8> = vec![0,2, 0,12,  1,0, 0,1,  0,82, 0xff,0xff];
    let mut data: Vec<u8> = vec![1,0, 0,18];
    data.push(10); data.extend_from_slice(b"GigabitEth");
    data.push(2);  data.extend_from_slice(b"e0");
    assert_eq!(data.len(), 18);
    let len = 16 + tmpl.len() + data.len();
    let mut m: Vec<u8> = vec![0,10, (len >> 8) as u8, len as u8, 0,0,0,1, 0,0,0,2, 0,0,0,3];
    m.extend_from_slice(&tmpl); m.extend_from_slice(&data);
    let mut p = NetflowParser::default();
    let r = p.parse_bytes(&m);
    assert_eq!(r.len(), 1, "{:?}", r);
    let ipfix = match &r[0] { NetflowPacket::IPFix(x) => x, o => panic!("{:?}", o) };
    match &ipfix.flowsets[1].body {
        FlowSetBody::Data(d) => {
            println!("{:?}", d);
            assert_eq!(d.fields.len(), 2, "the second (shorter) record was not decoded; padding = {:?}", d.padding);
        }
        o => panic!("{:?}", o),
    }
}
