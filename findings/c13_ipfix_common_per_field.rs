use netflow_parser::{NetflowParser, NetflowPacket};
use netflow_parser::netflow_common::NetflowCommon;

#[test]
fn ipfix_two_records_two_fields() {
    // IPFIX message: template 256 {sourceIPv4Address(8,4), destinationIPv4Address(12,4)}, then data set with 2 records
    let mut m: Vec<u8> = vec![];
    let tmpl_set: Vec<u8> = vec![0,2, 0,16,  1,0, 0,2,  0,8, 0,4,  0,12, 0,4];
    let data_set: Vec<u8> = vec![1,0, 0,20,  10,0,0,1, 10,0,0,2,  10,0,0,3, 10,0,0,4];
    let len = 16 + tmpl_set.len() + data_set.len();
    m.extend_from_slice(&[0,10, (len >> 8) as u8, len as u8, 0,0,0,1, 0,0,0,2, 0,0,0,3]);
    m.extend_from_slice(&tmpl_set);
    m.extend_from_slice(&data_set);
    let mut p = NetflowParser::default();
    let r = p.parse_bytes(&m);
    assert_eq!(r.len(), 1);
    let ipfix = match &r[0] { NetflowPacket::IPFix(x) => x, other => panic!("{:?}", other) };
    println!("{:?}", ipfix.flowsets[1].body);
    let c: NetflowCommon = ipfix.into();
    println!("{:#?}", c.flowsets);
    assert_eq!(c.flowsets.len(), 2, "one common flow per flow record");
    assert!(c.flowsets[0].src_addr.is_some() && c.flowsets[0].dst_addr.is_some());
}
