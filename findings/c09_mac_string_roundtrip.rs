use netflow_parser::{NetflowParser, NetflowPacket};

fn v9_packet(field_type: u16, field_len: u16, value: &[u8]) -> Vec<u8> {
    // header (count = 2 flowsets), template flowset (id 256, one field), data flowset with one record
    let mut p: Vec<u8> = vec![0,9, 0,2, 0,0,0,1, 0,0,0,2, 0,0,0,3, 0,0,0,4];
    p.extend_from_slice(&[0,0, 0,12, 1,0, 0,1]);
    p.extend_from_slice(&field_type.to_be_bytes());
    p.extend_from_slice(&field_len.to_be_bytes());
    let mut body = value.to_vec();
    while body.len() % 4 != 0 { body.push(0); }
    let len = 4 + body.len() as u16;
    p.extend_from_slice(&[1,0]);
    p.extend_from_slice(&len.to_be_bytes());
    p.extend_from_slice(&body);
    p
}

fn roundtrip(p: &[u8]) -> Vec<u8> {
    let mut parser = NetflowParser::default();
    let r = parser.parse_bytes(p);
    assert_eq!(r.len(), 1, "{:?}", r);
    match &r[0] { NetflowPacket::V9(v9) => v9.to_be_bytes().expect("to_be_bytes"), o => panic!("{:?}", o) }
}

#[test]
fn v9_mac_field_reexports_its_six_bytes() {
    // IN_SRC_MAC = 56, 6 bytes (+2 padding)
    let p = v9_packet(56, 6, &[0x00, 0x1b, 0x21, 0x3c, 0x4d, 0x5e]);
    assert_eq!(roundtrip(&p), p);
}

#[test]
fn v9_string_field_reexports_its_bytes() {
    // APPLICATION_DESCRIPTION = 94 (string), 4 bytes, not valid UTF-8
    let p = v9_packet(94, 4, &[0x65, 0x74, 0xff, 0x30]);
    assert_eq!(roundtrip(&p), p);
}
