// Kani harnesses for src/variable_versions/v9.rs (child module of that file in the scratch copy).
use super::*;

fn be16(b: &[u8], o: usize) -> u16 { u16::from_be_bytes([b[o], b[o + 1]]) }

// ---------------------------------------------------------------------------------------------------------------
// B.v9.packet: the REAL V9::parse (header, FlowSetParser::parse_flowsets and whatever they call) against a model of
// v9::FlowSet::parse that satisfies its contract (kani::stub; the real one is the subject of V.v9.flowset):
// C02 (a packet consumes 20 + sum max(flowset length,4)), C11 (stops after header.count flowsets or at the end of the
// buffer, never reads a flowset it was not told about), C07 (an undecodable flowset fails the whole packet).
const N: usize = 18 + 13;
static mut CALLS: [usize; 6] = [0; 6];
static mut NCALLS: usize = 0;

fn toy_flowset(i: &[u8]) -> Option<(u16, u16, usize)> {
    if i.len() < 4 { return None; }
    let (id, len) = (be16(i, 0), be16(i, 2));
    let body = len.saturating_sub(4) as usize;
    if i.len() < 4 + body || id & 0x8000 != 0 { return None; }
    Some((id, len, 4 + body))
}
fn model_flowset<'a>(i: &'a [u8], _parser: &mut V9Parser) -> IResult<&'a [u8], FlowSet> where 'a: 'a {
    unsafe { if NCALLS < 6 { CALLS[NCALLS] = i.len(); } NCALLS += 1; }
    match toy_flowset(i) {
        Some((id, len, used)) => Ok((&i[used..], FlowSet {
            header: FlowSetHeader { flowset_id: id, length: len },
            body: FlowSetBody::Data(Data { fields: vec![], padding: vec![] }) })),
        None => Err(nom::Err::Error(nom::error::Error::new(i, nom::error::ErrorKind::Verify))),
    }
}
fn model_random_state() -> std::hash::RandomState { unsafe { std::mem::transmute::<(u64, u64), std::hash::RandomState>((1, 2)) } }

#[kani::proof]
#[kani::unwind(6)]
#[kani::stub(FlowSet::parse, model_flowset)]
#[kani::stub(std::hash::RandomState::new, model_random_state)]
fn b_v9_packet() {
    let buf: [u8; N] = kani::any();
    let n: usize = kani::any();
    kani::assume(n <= N);
    let i = &buf[..n];
    if n >= 2 { kani::assume(be16(i, 0) <= 3); }        // header.count 0..=3
    let mut parser = V9Parser::default();
    let r = V9::parse(i, &mut parser);
    // reference: at most `count` flowsets, stop at the end of the buffer, any failure fails the packet
    let mut expect_err = n < 18;
    let mut off = 18usize;
    let mut k = 0usize;
    let mut ids = [0u16; 3];
    if !expect_err {
        let count = be16(i, 0) as usize;
        while k < count && off < n {
            match toy_flowset(&i[off..]) {
                Some((id, _len, used)) => { ids[k] = id; k += 1; off += used; }
                None => { expect_err = true; break; }
            }
        }
    }
    match r {
        Ok((rest, p)) => {
            kani::cover!(p.flowsets.len() == 2, "two flowsets");
            assert!(!expect_err, "a packet with an undecodable / truncated flowset was accepted");
            assert!(p.header.version == 9 && p.header.count == be16(i, 0));
            assert!(p.flowsets.len() == k, "flowsets dropped, or a flowset read that header.count did not announce");
            let mut j = 0;
            while j < k { assert!(p.flowsets[j].header.flowset_id == ids[j], "flowsets out of order"); j += 1; }
            assert!(rest.len() == n - off, "packet does not end after its last announced flowset");
            unsafe { assert!(NCALLS == k, "bytes beyond the announced flowsets were interpreted"); }
            std::mem::forget(p);
        }
        Err(_) => { kani::cover!(n >= 18, "err with full header"); assert!(expect_err, "a well-formed packet was rejected"); }
    }
    std::mem::forget(parser);
}

// ---------------------------------------------------------------------------------------------------------------
/// B.v9.export.template -- C09 on a constructed packet with one template flowset (one template, one field) and one
/// options-template flowset: ids, counts / lengths, each field's type number and length, padding re-emitted as received
#[kani::proof]
#[kani::unwind(6)]
fn b_v9_export_template() {
    let n1: u16 = kani::any();
    let f1 = TemplateField { field_type_number: n1, field_type: V9Field::from(n1), field_length: kani::any() };
    let tid: u16 = kani::any();
    let cnt: u16 = kani::any();
    let pad: u8 = kani::any();
    let t = Template { template_id: tid, field_count: cnt, fields: vec![f1.clone()] };
    let fs_len: u16 = 4 + 4 + 4 + 1;
    let hdr = Header { version: 9, count: 1, sys_up_time: kani::any(), unix_secs: kani::any(), sequence_number: kani::any(), source_id: kani::any() };
    let p = V9 { header: hdr, flowsets: vec![FlowSet { header: FlowSetHeader { flowset_id: 0, length: fs_len },
                 body: FlowSetBody::Template(Templates { templates: vec![t], padding: vec![pad] }) }] };
    match p.to_be_bytes() {
        Ok(out) => {
            assert!(out.len() == 20 + fs_len as usize, "re-export length differs");
            assert!(be16(&out, 0) == 9 && be16(&out, 2) == 1);
            assert!(be16(&out, 20) == 0 && be16(&out, 22) == fs_len);
            assert!(be16(&out, 24) == tid && be16(&out, 26) == cnt, "template id / field count not re-emitted as received");
            assert!(be16(&out, 28) == n1 && be16(&out, 30) == f1.field_length, "field type number / length not re-emitted as received");
            assert!(out[32] == pad);
        }
        Err(_) => assert!(false, "to_be_bytes failed on a template flowset"),
    }
    std::mem::forget(p);
}

/// B.v9.total_size -- Template::get_total_size for up to 3 fields: the saturating sum of the field lengths
#[kani::proof]
#[kani::unwind(6)]
fn b_v9_total_size() {
    let n: usize = kani::any();
    kani::assume(n <= 3);
    let l: [u16; 3] = kani::any();
    let mut fields = Vec::with_capacity(3);
    let mut k = 0;
    while k < n {
        fields.push(TemplateField { field_type_number: 1, field_type: V9Field::InBytes, field_length: l[k] });
        k += 1;
    }
    let t = Template { template_id: 256, field_count: n as u16, fields };
    let mut want: u32 = 0;
    let mut j = 0;
    while j < n { want += l[j] as u32; j += 1; }
    assert!(t.get_total_size() as u32 == if want > 65535 { 65535 } else { want });
}

/// K.v9.unknown_field.off -- feature parse_unknown_fields OFF: a V9 field whose type the library does not know is never
/// decoded, whatever its declared length and whatever the bytes (so the record holding it is not reported, V.v9.records)
#[cfg(not(feature = "parse_unknown_fields"))]
#[kani::proof]
#[kani::unwind(6)]
fn k_v9_unknown_field_off() {
    let buf: [u8; 6] = kani::any();
    let n: usize = kani::any();
    kani::assume(n <= 6);
    let f = TemplateField { field_type_number: 400, field_type: V9Field::from(400u16), field_length: kani::any() };
    assert!(f.field_type == V9Field::Unknown);
    assert!(f.parse_as_field_value(&buf[..n]).is_err(), "a field of unknown type was reported as decoded data");
}
