// Kani harnesses for src/variable_versions/data_number.rs.
// Compiled as a child module of that file inside a scratch copy of the real crate (cfg(kani) only).
// Every harness here is loop-free over the full stated input domain => a complete proof of the
// leaf contract (no unwinding bound), unless its name starts with `b_` (bounded stand-in).
use super::*;

fn any_slice<'a>(buf: &'a [u8; 17]) -> &'a [u8] {
    let n: usize = kani::any();
    kani::assume(n <= 17);
    &buf[..n]
}

fn be(b: &[u8]) -> u128 {
    // big-endian value of up to 16 bytes, straight-line
    let mut v: u128 = 0;
    let mut k = 0;
    while k < b.len() {
        v = (v << 8) | (b[k] as u128);
        k += 1;
    }
    v
}

/// K.dn.parse -- DataNumber::parse: succeeds iff len in {1,2,3,4,8,16} and len <= avail; consumes len;
/// value is the big-endian (two's complement when signed) reading in the variant the library assigns.
#[kani::proof]
#[kani::unwind(18)]
fn k_dn_parse() {
    let buf: [u8; 17] = kani::any();
    let i = any_slice(&buf);
    let len: u16 = kani::any();
    let signed: bool = kani::any();
    let r = DataNumber::parse(i, len, signed);
    let supported = matches!(len, 1 | 2 | 3 | 4 | 8 | 16);
    match r {
        Ok((rest, v)) => {
            kani::cover!(true, "ok path");
            assert!(supported && (len as usize) <= i.len());
            assert!(rest.len() == i.len() - len as usize);
            assert!(rest.as_ptr() == i[len as usize..].as_ptr());
            let raw = be(&i[..len as usize]);
            match (len, signed, v) {
                (1, false, DataNumber::U8(x)) => assert!(x as u128 == raw),
                (2, false, DataNumber::U16(x)) => assert!(x as u128 == raw),
                (3, false, DataNumber::U24(x)) => assert!(x as u128 == raw),
                (4, false, DataNumber::U32(x)) => assert!(x as u128 == raw),
                (8, false, DataNumber::U64(x)) => assert!(x as u128 == raw),
                (16, false, DataNumber::U128(x)) => assert!(x == raw),
                (1, true, DataNumber::I32(x)) => assert!(x == (raw as u8 as i8) as i32),
                (2, true, DataNumber::I32(x)) => assert!(x == (raw as u16 as i16) as i32),
                (3, true, DataNumber::I24(x)) => assert!(x == (((raw as u32) << 8) as i32) >> 8),
                (4, true, DataNumber::I32(x)) => assert!(x == raw as u32 as i32),
                // 8/16-byte signed values are narrowed to i32 by the library (see known findings)
                (8, true, DataNumber::I32(x)) => assert!(x == raw as u64 as i64 as i32),
                (16, true, DataNumber::I32(x)) => assert!(x == raw as i128 as i32),
                _ => assert!(false, "unexpected variant for (len, signed)"),
            }
        }
        Err(_) => {
            kani::cover!(true, "err path");
            assert!(!supported || (len as usize) > i.len());
        }
    }
}

fn number_check(signed: bool) {
    let buf: [u8; 17] = kani::any();
    let i = any_slice(&buf);
    let len: u16 = kani::any();
    let class = if signed { FieldDataType::SignedDataNumber } else { FieldDataType::UnsignedDataNumber };
    let supported = matches!(len, 1 | 2 | 3 | 4 | 8 | 16);
    match FieldValue::from_field_type(i, class, len) {
        Ok((rest, FieldValue::DataNumber(v))) => {
            kani::cover!(true, "ok");
            assert!(supported && (len as usize) <= i.len());
            assert!(rest.len() == i.len() - len as usize && rest.as_ptr() == i[len as usize..].as_ptr());
            let raw = be(&i[..len as usize]);
            match (len, signed, v) {
                (1, false, DataNumber::U8(x)) => assert!(x as u128 == raw),
                (2, false, DataNumber::U16(x)) => assert!(x as u128 == raw),
                (3, false, DataNumber::U24(x)) => assert!(x as u128 == raw),
                (4, false, DataNumber::U32(x)) => assert!(x as u128 == raw),
                (8, false, DataNumber::U64(x)) => assert!(x as u128 == raw),
                (16, false, DataNumber::U128(x)) => assert!(x == raw),
                (1, true, DataNumber::I32(x)) => assert!(x == (raw as u8 as i8) as i32),
                (2, true, DataNumber::I32(x)) => assert!(x == (raw as u16 as i16) as i32),
                (3, true, DataNumber::I24(x)) => assert!(x == (((raw as u32) << 8) as i32) >> 8),
                (4, true, DataNumber::I32(x)) => assert!(x == raw as u32 as i32),
                (8, true, DataNumber::I32(x)) => assert!(x == raw as u64 as i64 as i32),
                (16, true, DataNumber::I32(x)) => assert!(x == raw as i128 as i32),
                _ => assert!(false, "unexpected variant for (len, signed)"),
            }
        }
        Ok(_) => assert!(false, "numeric class decoded to a non-numeric value"),
        Err(_) => { kani::cover!(true, "err"); assert!(!supported || (len as usize) > i.len()); }
    }
}
/// K.fv.from.unsigned / K.fv.from.signed -- from_field_type for the numeric classes: same contract as
/// DataNumber::parse with the signedness of the class, wrapped in FieldValue::DataNumber.
#[kani::proof]
#[kani::unwind(18)]
fn k_fv_from_unsigned() { number_check(false); }
#[kani::proof]
#[kani::unwind(18)]
fn k_fv_from_signed() { number_check(true); }

/// K.fv.from.ip4 -- 4 bytes, Ipv4Addr of the big-endian u32, independent of field_length
#[kani::proof]
fn k_fv_from_ip4() {
    let buf: [u8; 17] = kani::any();
    let i = any_slice(&buf);
    let len: u16 = kani::any();
    match FieldValue::from_field_type(i, FieldDataType::Ip4Addr, len) {
        Ok((rest, FieldValue::Ip4Addr(ip))) => {
            kani::cover!(true, "ok");
            assert!(i.len() >= 4 && rest.len() == i.len() - 4 && rest.as_ptr() == i[4..].as_ptr());
            assert!(ip.octets() == [i[0], i[1], i[2], i[3]]);
        }
        Ok(_) => assert!(false),
        Err(_) => { kani::cover!(true, "err"); assert!(i.len() < 4); }
    }
}

/// K.fv.from.ip6 -- 16 bytes
#[kani::proof]
fn k_fv_from_ip6() {
    let buf: [u8; 17] = kani::any();
    let i = any_slice(&buf);
    let len: u16 = kani::any();
    match FieldValue::from_field_type(i, FieldDataType::Ip6Addr, len) {
        Ok((rest, FieldValue::Ip6Addr(ip))) => {
            kani::cover!(true, "ok");
            assert!(i.len() >= 16 && rest.len() == i.len() - 16 && rest.as_ptr() == i[16..].as_ptr());
            let o = ip.octets();
            let mut k = 0;
            while k < 16 { assert!(o[k] == i[k]); k += 1; }
        }
        Ok(_) => assert!(false),
        Err(_) => { kani::cover!(true, "err"); assert!(i.len() < 16); }
    }
}

/// K.fv.from.float64 -- 8 bytes, bit pattern preserved
#[kani::proof]
fn k_fv_from_float64() {
    let buf: [u8; 17] = kani::any();
    let i = any_slice(&buf);
    let len: u16 = kani::any();
    match FieldValue::from_field_type(i, FieldDataType::Float64, len) {
        Ok((rest, FieldValue::Float64(f))) => {
            kani::cover!(true, "ok");
            assert!(i.len() >= 8 && rest.len() == i.len() - 8 && rest.as_ptr() == i[8..].as_ptr());
            assert!(f.to_bits() as u128 == be(&i[..8]));
        }
        Ok(_) => assert!(false),
        Err(_) => { kani::cover!(true, "err"); assert!(i.len() < 8); }
    }
}

fn dur_check(class: FieldDataType, seconds: bool) {
    let buf: [u8; 17] = kani::any();
    let i = any_slice(&buf);
    let len: u16 = kani::any();
    let supported = matches!(len, 1 | 2 | 3 | 4 | 8 | 16);
    match FieldValue::from_field_type(i, class, len) {
        Ok((rest, FieldValue::Duration(d))) => {
            kani::cover!(true, "ok");
            assert!(supported && (len as usize) <= i.len());
            assert!(rest.len() == i.len() - len as usize && rest.as_ptr() == i[len as usize..].as_ptr());
            if seconds && len <= 8 {
                assert!(d.as_secs() as u128 == be(&i[..len as usize]) && d.subsec_nanos() == 0);
            }
        }
        Ok(_) => assert!(false, "duration class decoded to another kind of value"),
        Err(_) => { kani::cover!(true, "err"); assert!(!supported || (len as usize) > i.len()); }
    }
}
/// K.fv.from.duration.* -- the four duration classes: consume `len` bytes (len in {1,2,3,4,8,16}), no
/// panic for any input (C01: the `as usize` / unit conversions); value checked for the seconds class
/// (the sub-second units involve 64-bit division: their values are covered by the K.rt.* round trips)
#[kani::proof]
#[kani::unwind(18)]
fn k_fv_from_dur_secs() { dur_check(FieldDataType::DurationSeconds, true); }
#[kani::proof]
#[kani::unwind(18)]
fn k_fv_from_dur_millis() { dur_check(FieldDataType::DurationMillis, false); }
#[kani::proof]
#[kani::unwind(18)]
fn k_fv_from_dur_micros() { dur_check(FieldDataType::DurationMicros, false); }
#[kani::proof]
#[kani::unwind(18)]
fn k_fv_from_dur_nanos() { dur_check(FieldDataType::DurationNanos, false); }

/// K.fv.from.vec -- Vec class: exactly `len` bytes copied
#[kani::proof]
#[kani::unwind(18)]
fn k_fv_from_vec() {
    let buf: [u8; 17] = kani::any();
    let i = any_slice(&buf);
    let len: u16 = kani::any();
    match FieldValue::from_field_type(i, FieldDataType::Vec, len) {
        Ok((rest, FieldValue::Vec(v))) => {
            kani::cover!(true, "ok");
            assert!((len as usize) <= i.len() && v.len() == len as usize);
            assert!(rest.len() == i.len() - len as usize && rest.as_ptr() == i[len as usize..].as_ptr());
            let mut k = 0;
            while k < v.len() { assert!(v[k] == i[k]); k += 1; }
        }
        Ok(_) => assert!(false),
        Err(_) => { kani::cover!(true, "err"); assert!((len as usize) > i.len()); }
    }
}

/// K.fv.from.string -- String class: exactly `len` bytes are consumed and kept (as text); too short => Err.
/// `String::from_utf8_lossy` is stubbed by the byte-preserving identity (what it is on valid UTF-8): the harness is about
/// WHICH bytes the value is built from, not about the replacement of invalid sequences (known finding).
#[kani::proof]
#[kani::stub(std::string::String::from_utf8_lossy, lossy_on_valid_utf8)]
#[kani::unwind(18)]
fn k_fv_from_string() {
    let buf: [u8; 17] = kani::any();
    let i = any_slice(&buf);
    let len: u16 = kani::any();
    match FieldValue::from_field_type(i, FieldDataType::String, len) {
        Ok((rest, FieldValue::String(s))) => {
            kani::cover!(true, "ok");
            let v = s.as_bytes();
            assert!((len as usize) <= i.len() && v.len() == len as usize);
            assert!(rest.len() == i.len() - len as usize && rest.as_ptr() == i[len as usize..].as_ptr());
            let mut k = 0;
            while k < v.len() { assert!(v[k] == i[k]); k += 1; }
        }
        Ok(_) => assert!(false),
        Err(_) => { kani::cover!(true, "err"); assert!((len as usize) > i.len()); }
    }
}

/// K.fv.from.unknown.on -- feature parse_unknown_fields ON: Unknown class copies `len` bytes into Vec
#[cfg(feature = "parse_unknown_fields")]
#[kani::proof]
#[kani::unwind(18)]
fn k_fv_from_unknown_on() {
    let buf: [u8; 17] = kani::any();
    let i = any_slice(&buf);
    let len: u16 = kani::any();
    match FieldValue::from_field_type(i, FieldDataType::Unknown, len) {
        Ok((rest, FieldValue::Vec(v))) => {
            kani::cover!(true, "ok");
            assert!((len as usize) <= i.len() && v.len() == len as usize);
            assert!(rest.len() == i.len() - len as usize);
            let mut k = 0;
            while k < v.len() { assert!(v[k] == i[k]); k += 1; }
        }
        Ok(_) => assert!(false),
        Err(_) => { kani::cover!(true, "err"); assert!((len as usize) > i.len()); }
    }
}

/// K.fv.from.unknown.off -- feature OFF: a field of unknown type is never decoded
#[cfg(not(feature = "parse_unknown_fields"))]
#[kani::proof]
fn k_fv_from_unknown_off() {
    let buf: [u8; 17] = kani::any();
    let i = any_slice(&buf);
    let len: u16 = kani::any();
    assert!(FieldValue::from_field_type(i, FieldDataType::Unknown, len).is_err());
}

/// K.fv.from.protocol -- ProtocolType class: one byte, name = ProtocolTypes::from(number), never an
/// error for a present byte (a record must not be dropped because of its protocol number)
#[kani::proof]
fn k_fv_from_protocol() {
    let buf: [u8; 17] = kani::any();
    let i = any_slice(&buf);
    let len: u16 = kani::any();
    match FieldValue::from_field_type(i, FieldDataType::ProtocolType, len) {
        Ok((rest, FieldValue::ProtocolType(p))) => {
            kani::cover!(true, "ok");
            assert!(i.len() >= 1 && rest.len() == i.len() - 1);
            assert!(p == ProtocolTypes::from(i[0]));
        }
        Ok(_) => assert!(false),
        Err(_) => { kani::cover!(true, "err"); assert!(i.len() < 1); }
    }
}

// ---------------------------------------------------------------------------------------------
// value -> bytes: re-export of a decoded value reproduces the bytes it was decoded from (C09/C10)
fn rt_check(class: FieldDataType, len: u16, width: usize) {
    let buf: [u8; 17] = kani::any();
    let i = &buf[..];
    if let Ok((_, v)) = FieldValue::from_field_type(i, class, len) {
        kani::cover!(true, "decoded");
        match v.to_be_bytes() {
            Ok(out) => {
                assert!(out.len() == width, "re-exported width differs from the width on the wire");
                let mut k = 0;
                while k < width { assert!(out[k] == i[k], "re-exported byte differs"); k += 1; }
            }
            Err(_) => assert!(false, "to_be_bytes failed on a decoded value"),
        }
    } else {
        assert!(false, "decode failed on a full buffer");
    }
}
macro_rules! rt {
    ($name:ident, $class:expr, $len:expr, $w:expr) => {
        #[kani::proof]
        #[kani::unwind(18)]
        fn $name() { rt_check($class, $len, $w); }
    };
}
rt!(k_rt_unsigned_1, FieldDataType::UnsignedDataNumber, 1, 1);
rt!(k_rt_unsigned_2, FieldDataType::UnsignedDataNumber, 2, 2);
rt!(k_rt_unsigned_3, FieldDataType::UnsignedDataNumber, 3, 3);
rt!(k_rt_unsigned_4, FieldDataType::UnsignedDataNumber, 4, 4);
rt!(k_rt_unsigned_8, FieldDataType::UnsignedDataNumber, 8, 8);
rt!(k_rt_unsigned_16, FieldDataType::UnsignedDataNumber, 16, 16);
rt!(k_rt_signed_1, FieldDataType::SignedDataNumber, 1, 1);
rt!(k_rt_signed_2, FieldDataType::SignedDataNumber, 2, 2);
rt!(k_rt_signed_3, FieldDataType::SignedDataNumber, 3, 3);
rt!(k_rt_signed_4, FieldDataType::SignedDataNumber, 4, 4);
rt!(k_rt_signed_8, FieldDataType::SignedDataNumber, 8, 8);
rt!(k_rt_signed_16, FieldDataType::SignedDataNumber, 16, 16);
rt!(k_rt_ip4, FieldDataType::Ip4Addr, 4, 4);
rt!(k_rt_ip6, FieldDataType::Ip6Addr, 16, 16);
rt!(k_rt_float64, FieldDataType::Float64, 8, 8);
rt!(k_rt_vec_7, FieldDataType::Vec, 7, 7);
/// K.rt.string_ascii_2 -- a 2-byte string field holding ASCII (valid UTF-8, NUL included) re-exports its 2 bytes.
/// `String::from_utf8_lossy` is replaced by its behaviour on valid UTF-8 (the identity), which is all an ASCII input
/// exercises: CBMC exhausts memory on the real validation loop.
fn lossy_on_valid_utf8(v: &[u8]) -> std::borrow::Cow<'_, str> {
    std::borrow::Cow::Borrowed(unsafe { std::str::from_utf8_unchecked(v) })
}
#[kani::proof]
#[kani::stub(std::string::String::from_utf8_lossy, lossy_on_valid_utf8)]
#[kani::unwind(6)]
fn k_rt_string_ascii_2() {
    let buf: [u8; 2] = kani::any();
    kani::assume(buf[0] < 0x80 && buf[1] < 0x80);
    if let Ok((rest, v)) = FieldValue::from_field_type(&buf[..], FieldDataType::String, 2) {
        assert!(rest.is_empty());
        match v.to_be_bytes() {
            Ok(out) => { assert!(out.len() == 2, "re-exported width differs"); assert!(out[0] == buf[0] && out[1] == buf[1], "re-exported byte differs"); }
            Err(_) => assert!(false, "to_be_bytes failed"),
        }
    } else { assert!(false, "decode failed on a full buffer"); }
}
rt!(k_rt_protocol, FieldDataType::ProtocolType, 1, 1);
rt!(k_rt_dur_secs_4, FieldDataType::DurationSeconds, 4, 4);
rt!(k_rt_dur_secs_8, FieldDataType::DurationSeconds, 8, 8);
rt!(k_rt_dur_millis_4, FieldDataType::DurationMillis, 4, 4);
rt!(k_rt_dur_millis_8, FieldDataType::DurationMillis, 8, 8);
rt!(k_rt_dur_micros_8, FieldDataType::DurationMicros, 8, 8);
rt!(k_rt_dur_nanos_8, FieldDataType::DurationNanos, 8, 8);
#[cfg(feature = "parse_unknown_fields")]
rt!(k_rt_unknown_5, FieldDataType::Unknown, 5, 5);

// ---------------------------------------------------------------------------------------------
// TryFrom<&FieldValue> conversions used by the common-flow view (C13)
#[kani::proof]
fn k_try_u8_u16_u32() {
    let x8: u8 = kani::any(); let x16: u16 = kani::any(); let x32: u32 = kani::any();
    assert!(u8::try_from(&FieldValue::DataNumber(DataNumber::U8(x8))).ok() == Some(x8));
    assert!(u16::try_from(&FieldValue::DataNumber(DataNumber::U16(x16))).ok() == Some(x16));
    assert!(u32::try_from(&FieldValue::DataNumber(DataNumber::U32(x32))).ok() == Some(x32));
    // a value of another width is refused, never truncated
    assert!(u8::try_from(&FieldValue::DataNumber(DataNumber::U16(x16))).is_err());
    assert!(u16::try_from(&FieldValue::DataNumber(DataNumber::U32(x32))).is_err());
}
#[kani::proof]
fn k_try_ip() {
    let a: u32 = kani::any(); let b: u128 = kani::any();
    assert!(IpAddr::try_from(&FieldValue::Ip4Addr(Ipv4Addr::from(a))).ok() == Some(IpAddr::V4(Ipv4Addr::from(a))));
    assert!(IpAddr::try_from(&FieldValue::Ip6Addr(Ipv6Addr::from(b))).ok() == Some(IpAddr::V6(Ipv6Addr::from(b))));
    assert!(IpAddr::try_from(&FieldValue::DataNumber(DataNumber::U32(a))).is_err());
}
/// K.try.string -- C13 (MAC addresses of the common view): String::try_from accepts exactly the String and MacAddr kinds
/// and returns their text unchanged (bounded: two fixed short texts; the dispatch is what is checked)
#[kani::proof]
#[kani::unwind(8)]
fn k_try_string() {
    assert!(String::try_from(&FieldValue::String(String::from("ab"))).ok().as_deref() == Some("ab"));
    assert!(String::try_from(&FieldValue::MacAddr(String::from("00:1B"))).ok().as_deref() == Some("00:1B"));
    let a: u32 = kani::any();
    assert!(String::try_from(&FieldValue::DataNumber(DataNumber::U32(a))).is_err());
    assert!(String::try_from(&FieldValue::Ip4Addr(Ipv4Addr::from(a))).is_err());
    assert!(String::try_from(&FieldValue::Vec(Vec::new())).is_err());
}
/// C13: a decoded protocol field (FieldValue::ProtocolType) converts to its number
#[kani::proof]
fn k_try_protocol_u8() {
    let n: u8 = kani::any();
    let v = FieldValue::ProtocolType(ProtocolTypes::from(n));
    assert!(u8::try_from(&v).is_ok(), "protocol value does not convert to u8");
}
/// C13: a decoded time field (FieldValue::Duration) converts to u32
#[kani::proof]
fn k_try_duration_u32() {
    let n: u32 = kani::any();
    let v = FieldValue::Duration(Duration::from_millis(n as u64));
    assert!(u32::try_from(&v).is_ok(), "duration value does not convert to u32");
}
