// Kani harnesses for src/netflow_common.rs (child module of that file in the scratch copy).
// C13 for the fixed-format versions: the common view of a V5 / V7 packet with one record is the faithful
// projection of that record (version, timestamp, addresses, ports, protocol number and name, first/last, no MACs).
use super::*;
use crate::static_versions::{v5, v7};
use std::net::Ipv4Addr;

fn any_v5_record() -> v5::FlowSet {
    let pn: u8 = kani::any();
    v5::FlowSet { src_addr: Ipv4Addr::from(kani::any::<u32>()), dst_addr: Ipv4Addr::from(kani::any::<u32>()), next_hop: Ipv4Addr::from(kani::any::<u32>()),
        input: kani::any(), output: kani::any(), d_pkts: kani::any(), d_octets: kani::any(), first: kani::any(), last: kani::any(),
        src_port: kani::any(), dst_port: kani::any(), pad1: kani::any(), tcp_flags: kani::any(), protocol_number: pn,
        protocol_type: ProtocolTypes::from(pn), tos: kani::any(), src_as: kani::any(), dst_as: kani::any(), src_mask: kani::any(), dst_mask: kani::any(), pad2: kani::any() }
}
fn any_v7_record() -> v7::FlowSet {
    let pn: u8 = kani::any();
    v7::FlowSet { src_addr: Ipv4Addr::from(kani::any::<u32>()), dst_addr: Ipv4Addr::from(kani::any::<u32>()), next_hop: Ipv4Addr::from(kani::any::<u32>()),
        input: kani::any(), output: kani::any(), d_pkts: kani::any(), d_octets: kani::any(), first: kani::any(), last: kani::any(),
        src_port: kani::any(), dst_port: kani::any(), flags_fields_valid: kani::any(), tcp_flags: kani::any(), protocol_number: pn,
        protocol_type: ProtocolTypes::from(pn), tos: kani::any(), src_as: kani::any(), dst_as: kani::any(), src_mask: kani::any(), dst_mask: kani::any(),
        flags_fields_invalid: kani::any(), router_src: Ipv4Addr::from(kani::any::<u32>()) }
}

/// K.common.v5 -- one record, all field values
#[kani::proof]
#[kani::unwind(10)]
fn k_common_v5() {
    let h = v5::Header { version: 5, count: 1, sys_up_time: kani::any(), unix_secs: kani::any(), unix_nsecs: kani::any(),
                         flow_sequence: kani::any(), engine_type: kani::any(), engine_id: kani::any(), sampling_interval: kani::any() };
    let mut flowsets = Vec::with_capacity(1);
    flowsets.push(any_v5_record());
    let p = v5::V5 { header: h, flowsets };
    let c = NetflowCommon::from(&p);
    assert!(c.version == 5 && c.timestamp == h.sys_up_time);
    assert!(c.flowsets.len() == 1, "not one common flow per record");
    let (f, r) = (&c.flowsets[0], &p.flowsets[0]);
    assert!(f.src_addr == Some(IpAddr::V4(r.src_addr)) && f.dst_addr == Some(IpAddr::V4(r.dst_addr)));
    assert!(f.src_port == Some(r.src_port) && f.dst_port == Some(r.dst_port));
    assert!(f.protocol_number == Some(r.protocol_number) && f.protocol_type == Some(r.protocol_type));
    assert!(f.first_seen == Some(r.first) && f.last_seen == Some(r.last));
    assert!(f.src_mac.is_none() && f.dst_mac.is_none());
}

/// K.common.v7 -- one record, all field values
#[kani::proof]
#[kani::unwind(10)]
fn k_common_v7() {
    let h = v7::Header { version: 7, count: 1, sys_up_time: kani::any(), unix_secs: kani::any(), unix_nsecs: kani::any(),
                         flow_sequence: kani::any(), reserved: kani::any() };
    let mut flowsets = Vec::with_capacity(1);
    flowsets.push(any_v7_record());
    let p = v7::V7 { header: h, flowsets };
    let c = NetflowCommon::from(&p);
    assert!(c.version == 7 && c.timestamp == h.sys_up_time);
    assert!(c.flowsets.len() == 1, "not one common flow per record");
    let (f, r) = (&c.flowsets[0], &p.flowsets[0]);
    assert!(f.src_addr == Some(IpAddr::V4(r.src_addr)) && f.dst_addr == Some(IpAddr::V4(r.dst_addr)));
    assert!(f.src_port == Some(r.src_port) && f.dst_port == Some(r.dst_port));
    assert!(f.protocol_number == Some(r.protocol_number) && f.protocol_type == Some(r.protocol_type));
    assert!(f.first_seen == Some(r.first) && f.last_seen == Some(r.last));
    assert!(f.src_mac.is_none() && f.dst_mac.is_none());
}
