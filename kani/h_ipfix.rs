// Kani harnesses for src/variable_versions/ipfix.rs (child module of that file in the scratch copy).
//
// B.ipfix.message: the REAL IPFix::parse (message header, take(length-16), the loop over sets, whatever its
// internal shape) is run against a small deterministic *model of FlowSet::parse that satisfies that function's
// contract* (kani::stub; the real FlowSet::parse is the subject of V.ipfix.flowset) and compared with the
// reference framing of RFC 7011 3.1: C02 (message consumes max(length,16) bytes), C05 (all sets inside the
// message length, in order, up to the first undecodable one), C14 (fewer bytes than announced => Err before any
// set is interpreted).  Bounded by buffer length.
use super::*;

const N: usize = 14 + 13;

static mut CALLS: [usize; 6] = [0; 6];
static mut NCALLS: usize = 0;

fn be16(b: &[u8], o: usize) -> u16 { u16::from_be_bytes([b[o], b[o + 1]]) }

/// toy set: header (id, length); needs length-4 body bytes; ids with the top bit set are "undecodable"
fn toy_set(i: &[u8]) -> Option<(u16, u16, usize)> {
    if i.len() < 4 { return None; }
    let (id, len) = (be16(i, 0), be16(i, 2));
    let body = len.saturating_sub(4) as usize;
    if i.len() < 4 + body || id & 0x8000 != 0 { return None; }
    Some((id, len, 4 + body))
}
fn model_flowset<'a>(i: &'a [u8], _parser: &mut IPFixParser) -> IResult<&'a [u8], FlowSet> where 'a: 'a {
    unsafe { if NCALLS < 6 { CALLS[NCALLS] = i.len(); } NCALLS += 1; }
    match toy_set(i) {
        Some((id, len, used)) => Ok((&i[used..], FlowSet {
            header: FlowSetHeader { header_id: id, length: len },
            body: FlowSetBody::Data(Data { fields: vec![], padding: vec![] }) })),
        None => Err(nom::Err::Error(nom::error::Error::new(i, nom::error::ErrorKind::Verify))),
    }
}

#[kani::proof]
#[kani::unwind(6)]
#[kani::stub(FlowSet::parse, model_flowset)]
fn b_ipfix_message() {
    let buf: [u8; N] = kani::any();
    let n: usize = kani::any();
    kani::assume(n <= N);
    let i = &buf[..n];
    let mut parser = IPFixParser::default();
    let r = IPFix::parse(i, &mut parser);
    let announced = if n >= 14 { be16(i, 0).saturating_sub(16) as usize } else { 0 };
    match r {
        Ok((rest, msg)) => {
            kani::cover!(msg.flowsets.len() == 2, "two sets");
            assert!(n >= 14 && n - 14 >= announced, "a truncated message was accepted");
            assert!(rest.len() == n - 14 - announced, "message does not consume max(length,16) bytes");
            assert!(msg.header.version == 10 && msg.header.length == be16(i, 0));
            // reference: sets back to back inside the announced body, stop at the first undecodable one
            let body = &i[14..14 + announced];
            let mut off = 0usize;
            let mut k = 0usize;
            let mut calls = 0usize;
            while off < body.len() || calls == 0 {
                unsafe { assert!(calls < NCALLS && CALLS[calls] == body.len() - off, "set parser not run on the unconsumed body"); }
                calls += 1;
                match toy_set(&body[off..]) {
                    Some((id, len, used)) => {
                        assert!(k < msg.flowsets.len(), "a set inside the message length is missing");
                        assert!(msg.flowsets[k].header.header_id == id && msg.flowsets[k].header.length == len, "sets out of order");
                        k += 1;
                        off += used;
                        if off == body.len() { 
                            // many0 tries once more on the empty rest
                            unsafe { assert!(NCALLS == calls + 1 && CALLS[calls] == 0); }
                            calls += 1;
                            break;
                        }
                    }
                    None => break,
                }
            }
            assert!(k == msg.flowsets.len(), "extra sets reported");
            unsafe { assert!(NCALLS == calls, "bytes outside the message were interpreted"); }
            std::mem::forget(msg);
        }
        Err(_) => {
            kani::cover!(n >= 14, "err with full header");
            assert!(n < 14 || n - 14 < announced, "a complete message was rejected");
            unsafe { assert!(NCALLS == 0, "a set was interpreted although the message is truncated"); }
        }
    }
    std::mem::forget(parser);
}

/// B.ipfix.export.template -- C10 on a constructed message with one template set holding one template record with
/// two field specifiers (one plain, one enterprise): id, announced field count, each specifier's type number
/// (with the enterprise bit), length and enterprise number, and the padding are re-emitted as received.
#[kani::proof]
#[kani::unwind(6)]
fn b_ipfix_export_template() {
    let n1: u16 = kani::any();
    kani::assume(n1 < 0x8000);
    let f1 = TemplateField { field_type_number: n1, field_type: IPFixField::from(n1), field_length: kani::any(), enterprise_number: None };
    let announced: u16 = kani::any();       // the field count as received (need not equal the number of parsed specifiers)
    let tid: u16 = kani::any();
    let pad: u8 = kani::any();
    let t = Template { template_id: tid, field_count: announced, fields: vec![f1.clone()], padding: vec![pad] };
    let set_len: u16 = 4 + 4 + 4 + 1;
    let hdr = Header { version: 10, length: 16 + set_len, export_time: kani::any(), sequence_number: kani::any(), observation_domain_id: kani::any() };
    let m = IPFix { header: hdr, flowsets: vec![FlowSet { header: FlowSetHeader { header_id: 2, length: set_len }, body: FlowSetBody::Template(t) }] };
    match m.to_be_bytes() {
        Ok(out) => {
            assert!(out.len() == 16 + set_len as usize, "re-export is not header.length bytes");
            assert!(be16(&out, 0) == 10 && be16(&out, 2) == hdr.length);
            assert!(be16(&out, 16) == 2 && be16(&out, 18) == set_len);
            assert!(be16(&out, 20) == tid && be16(&out, 22) == announced, "template id / announced field count not re-emitted as received");
            assert!(be16(&out, 24) == n1 && be16(&out, 26) == f1.field_length, "field specifier not re-emitted as received");
            assert!(out[28] == pad);
        }
        Err(_) => assert!(false, "to_be_bytes failed on a template set"),
    }
    std::mem::forget(m);
}

/// K.ipfix.unknown_field.off -- feature parse_unknown_fields OFF: a field of an element the library does not know is
/// never decoded, whatever its declared length (fixed, or variable-length 65535) and whatever the bytes
#[cfg(not(feature = "parse_unknown_fields"))]
#[kani::proof]
#[kani::unwind(6)]
fn k_ipfix_unknown_field_off() {
    let buf: [u8; 6] = kani::any();
    let n: usize = kani::any();
    kani::assume(n <= 6);
    let f = TemplateField { field_type_number: 999, field_type: IPFixField::from(999u16), field_length: kani::any(), enterprise_number: None };
    assert!(f.field_type == IPFixField::Unknown);
    assert!(f.parse_as_field_value(&buf[..n]).is_err(), "a field of unknown type was reported as decoded data");
}

/// B.ipfix.is_valid -- CommonTemplate::is_valid for templates with up to 3 fields: valid iff some field has a
/// non-zero declared length (what the uninterpreted `tpl_valid` of V.ipfix.flowsetbody stands for; C01's per-record
/// progress argument needs it)
#[kani::proof]
#[kani::unwind(6)]
fn b_ipfix_is_valid() {
    let n: usize = kani::any();
    kani::assume(n <= 3);
    let l: [u16; 3] = kani::any();
    let mut fields = Vec::with_capacity(3);
    let mut k = 0;
    while k < n {
        fields.push(TemplateField { field_type_number: 1, field_type: IPFixField::OctetDeltaCount, field_length: l[k], enterprise_number: None });
        k += 1;
    }
    let t = Template { template_id: 256, field_count: n as u16, fields, padding: vec![] };
    let want = (n >= 1 && l[0] > 0) || (n >= 2 && l[1] > 0) || (n >= 3 && l[2] > 0);
    assert!(t.is_valid() == want);
}
