// Kani harnesses for src/lib.rs (child module of the crate root in the scratch copy).
//
// B.lib.parse_bytes: the REAL NetflowParser::parse_bytes (whatever its internal shape: recursion, loop,
// helper functions) is run against a small deterministic *model of parse_packet_by_version that satisfies
// that function's contract* (kani::stub -- the caller is checked against the callee's contract, not its
// body; the body is the subject of V.lib.ppbv), and compared with the left-to-right reference fold of
// C02/C07/C11/C14.  Bounded by buffer length N; every packet consumes >= 3 bytes.
use super::*;
use crate::static_versions::v5;

const N: usize = 8;

static mut CALLS: [usize; 12] = [0; 12];   // length of the buffer handed to each ppbv call
static mut NCALLS: usize = 0;

/// toy step semantics, a function of the bytes only (so the reference can recompute it):
///   fewer than 2 bytes                 -> Incomplete
///   byte0 top bits 01                  -> UnallowedVersion(be16)
///   byte0 top bits 10                  -> UnknownVersion(rest)
///   byte0 top bits 11 or empty rest    -> Partial{version: be16, remaining: rest}
///   otherwise                          -> Ok: consumes 2 + 1 + (rest[0] % rest.len()) bytes
#[derive(PartialEq, Clone, Copy)]
enum Step { Incomplete, Unallowed, Unknown, Partial, Ok(usize) }
fn toy_step(packet: &[u8]) -> Step {
    if packet.len() < 2 { return Step::Incomplete; }
    let rest = &packet[2..];
    match packet[0] >> 6 {
        1 => Step::Unallowed,
        2 => Step::Unknown,
        3 => Step::Partial,
        _ => if rest.is_empty() { Step::Partial } else { Step::Ok(2 + 1 + (rest[0] as usize % rest.len())) },
    }
}
fn model_ppbv<'a>(_p: &'a mut NetflowParser, packet: &'a [u8]) -> Result<ParsedNetflow, NetflowParseError> {
    unsafe { if NCALLS < 12 { CALLS[NCALLS] = packet.len(); } NCALLS += 1; }
    let ver = if packet.len() >= 2 { u16::from_be_bytes([packet[0], packet[1]]) } else { 0 };
    match toy_step(packet) {
        Step::Incomplete => Err(NetflowParseError::Incomplete(String::new())),
        Step::Unallowed => Err(NetflowParseError::UnallowedVersion(ver)),
        Step::Unknown => Err(NetflowParseError::UnknownVersion(packet[2..].to_vec())),
        Step::Partial => Err(NetflowParseError::Partial(PartialParse { version: ver, error: String::new(), remaining: packet[2..].to_vec() })),
        Step::Ok(c) => Ok(ParsedNetflow { remaining: packet[c..].to_vec(), result: NetflowPacket::V5(v5::V5 {
            header: v5::Header { version: 5, count: c as u16, sys_up_time: packet.len() as u32, unix_secs: 0, unix_nsecs: 0,
                                 flow_sequence: 0, engine_type: 0, engine_id: 0, sampling_interval: 0 }, flowsets: vec![] }) }),
    }
}

// RandomState::new() reads the OS random source (a syscall Kani does not model); hash seeds are irrelevant here
fn model_random_state() -> std::hash::RandomState { unsafe { std::mem::transmute::<(u64, u64), std::hash::RandomState>((1, 2)) } }

/// B.lib.parse_bytes
#[kani::proof]
#[kani::stub(std::hash::RandomState::new, model_random_state)]
#[kani::unwind(10)]
#[kani::stub(NetflowParser::parse_packet_by_version, model_ppbv)]
fn b_lib_parse_bytes() {
    let buf: [u8; N] = kani::any();
    let n: usize = kani::any();
    kani::assume(n <= N);
    let input = &buf[..n];
    let mut parser = NetflowParser {
        v9_parser: crate::variable_versions::v9::V9Parser::default(),
        ipfix_parser: crate::variable_versions::ipfix::IPFixParser::default(),
        allowed_versions: HashSet::new(),
    };
    let out = parser.parse_bytes(input);

    let mut off = 0usize;
    let mut idx = 0usize;
    let mut calls = 0usize;
    while off < n {
        let cur = &input[off..];
        unsafe {
            assert!(calls < NCALLS, "the next packet was not parsed (tail dropped)");
            assert!(CALLS[calls] == cur.len(), "the step was not run on exactly the unconsumed suffix");
        }
        calls += 1;
        match toy_step(cur) {
            Step::Ok(c) => {
                assert!(idx < out.len(), "a decoded packet is missing from the result");
                match &out[idx] {
                    NetflowPacket::V5(p) => assert!(p.header.count as usize == c && p.header.sys_up_time as usize == cur.len(),
                                                    "packets out of order / wrong packet"),
                    _ => assert!(false, "expected a packet element"),
                }
                idx += 1;
                off += c;
            }
            Step::Unallowed => { break; }   // C12: silent stop
            other => {
                assert!(idx < out.len(), "missing final error element");
                match &out[idx] {
                    NetflowPacket::Error(e) => {
                        assert!(e.remaining.as_slice() == cur, "error remaining is not exactly the unconsumed suffix");
                        match (&e.error, other) {
                            (NetflowParseError::Incomplete(_), Step::Incomplete) => {}
                            (NetflowParseError::UnknownVersion(b), Step::Unknown) => assert!(b.as_slice() == &cur[2..]),
                            (NetflowParseError::Partial(p), Step::Partial) => assert!(p.remaining.as_slice() == &cur[2..]),
                            _ => assert!(false, "error kind changed on the way out"),
                        }
                    }
                    _ => assert!(false, "expected an error element"),
                }
                idx += 1;
                break;
            }
        }
    }
    kani::cover!(idx >= 3, "three elements");
    assert!(idx == out.len(), "extra elements: error not last, or packets reported after the stop");
    unsafe { assert!(NCALLS == calls, "input after the stop / after the end was parsed"); }
    std::mem::forget(out);      // no drop glue for the (large) packet enum
    std::mem::forget(parser);
}
