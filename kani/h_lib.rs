// Kani harnesses for src/lib.rs (child module of the crate root in the scratch copy).
//
// K.nom.*: the TRUSTED specifications of the nom 7.1.3 primitives in contracts/verus/nom_prims.rs, re-stated as
// assertions and proved on the real nom functions (loop-free over all inputs of the stated sizes => complete for the
// leaf primitives; `count` is bounded to n <= 2).  Same contract text as the Verus stubs: width consumed, big-endian
// value, `Err` iff too short, and the error is the recoverable `Err::Error` kind.
use super::*;
use nom::bytes::complete::take;
use nom::combinator::{complete, cond, map_res};
use nom::multi::count;
use nom::number::complete::{be_u16, be_u32, be_u8};
use nom::IResult;

fn any_slice<'a>(buf: &'a [u8; 9]) -> &'a [u8] {
    let n: usize = kani::any();
    kani::assume(n <= 9);
    &buf[..n]
}
fn is_recoverable<T>(r: &IResult<&[u8], T>) -> bool { matches!(r, Err(nom::Err::Error(_))) }

#[kani::proof]
#[kani::unwind(6)]
fn k_nom_be() {
    let buf: [u8; 9] = kani::any();
    let i = any_slice(&buf);
    match be_u8::<_, nom::error::Error<&[u8]>>(i) {
        Ok((rest, v)) => assert!(i.len() >= 1 && v == i[0] && rest.as_ptr() == i[1..].as_ptr() && rest.len() == i.len() - 1),
        r @ Err(_) => assert!(i.len() < 1 && is_recoverable(&r)),
    }
    match be_u16::<_, nom::error::Error<&[u8]>>(i) {
        Ok((rest, v)) => assert!(i.len() >= 2 && v == u16::from_be_bytes([i[0], i[1]]) && rest.as_ptr() == i[2..].as_ptr() && rest.len() == i.len() - 2),
        r @ Err(_) => assert!(i.len() < 2 && is_recoverable(&r)),
    }
    match be_u32::<_, nom::error::Error<&[u8]>>(i) {
        Ok((rest, v)) => assert!(i.len() >= 4 && v == u32::from_be_bytes([i[0], i[1], i[2], i[3]]) && rest.as_ptr() == i[4..].as_ptr() && rest.len() == i.len() - 4),
        r @ Err(_) => assert!(i.len() < 4 && is_recoverable(&r)),
    }
}

#[kani::proof]
#[kani::unwind(6)]
fn k_nom_take_cond() {
    let buf: [u8; 9] = kani::any();
    let i = any_slice(&buf);
    let n: u16 = kani::any();
    match take::<_, _, nom::error::Error<&[u8]>>(n)(i) {
        Ok((rest, taken)) => assert!(i.len() >= n as usize && taken.as_ptr() == i.as_ptr() && taken.len() == n as usize
                                     && rest.as_ptr() == i[n as usize..].as_ptr() && rest.len() == i.len() - n as usize),
        r @ Err(_) => assert!(i.len() < n as usize && is_recoverable(&r)),
    }
    let b: bool = kani::any();
    match cond(b, be_u32::<_, nom::error::Error<&[u8]>>)(i) {
        Ok((rest, Some(v))) => assert!(b && i.len() >= 4 && v == u32::from_be_bytes([i[0], i[1], i[2], i[3]]) && rest.len() == i.len() - 4),
        Ok((rest, None)) => assert!(!b && rest.as_ptr() == i.as_ptr() && rest.len() == i.len()),
        Err(_) => assert!(b && i.len() < 4),
    }
}

/// map_res(P, F): P's remainder with F's Ok value; F's Err => recoverable Error(MapRes) at the ORIGINAL input (rule R15)
#[kani::proof]
#[kani::unwind(6)]
fn k_nom_map_res_complete() {
    let buf: [u8; 9] = kani::any();
    let i = any_slice(&buf);
    let f = |t: &[u8]| -> Result<u8, ()> { if t[0] & 1 == 0 { Ok(t[0]) } else { Err(()) } };
    match map_res(take::<_, _, nom::error::Error<&[u8]>>(2u16), f)(i) {
        Ok((rest, v)) => assert!(i.len() >= 2 && i[0] & 1 == 0 && v == i[0] && rest.len() == i.len() - 2),
        Err(nom::Err::Error(e)) => assert!(i.len() < 2 || (i[0] & 1 == 1 && e.code == nom::error::ErrorKind::MapRes && e.input.as_ptr() == i.as_ptr())),
        Err(_) => assert!(false, "map_res produced a non-recoverable error"),
    }
    // complete(): a streaming parser's Incomplete becomes a recoverable Error
    match complete(nom::number::streaming::be_u16::<_, nom::error::Error<&[u8]>>)(i) {
        Ok((rest, v)) => assert!(i.len() >= 2 && v == u16::from_be_bytes([i[0], i[1]]) && rest.len() == i.len() - 2),
        r @ Err(_) => assert!(i.len() < 2 && is_recoverable(&r)),
    }
}

/// count(f, n) for n <= 2 (bounded): n successes in sequence, or the first failure (same error kind)
#[kani::proof]
#[kani::unwind(6)]
fn b_nom_count() {
    let buf: [u8; 9] = kani::any();
    let i = any_slice(&buf);
    let n: usize = kani::any();
    kani::assume(n <= 2);
    match count(be_u16::<_, nom::error::Error<&[u8]>>, n)(i) {
        Ok((rest, v)) => {
            assert!(v.len() == n && i.len() >= 2 * n && rest.len() == i.len() - 2 * n);
            if n >= 1 { assert!(v[0] == u16::from_be_bytes([i[0], i[1]])); }
            if n >= 2 { assert!(v[1] == u16::from_be_bytes([i[2], i[3]])); }
        }
        r @ Err(_) => assert!(i.len() < 2 * n && is_recoverable(&r)),
    }
}
