// Kani harnesses for src/protocol.rs (child module of that file in the scratch copy)
use super::*;

// inputs listed in /verif/known_findings.txt for this obligation (generated at check time)
include!(concat!(env!("VERIF_KF_DIR"), "/K_proto_table.rs"));

/// K.proto.table -- for every protocol number the name is the variant whose declared number it is
/// (IANA: 0..=144 assigned, 145..=254 unassigned -> Unknown, 255 -> Reserved), and name -> number
/// is its inverse.  That variant *names* follow the IANA registry is checked against
/// contracts/layouts/iana_protocols.json by O.proto.names.
#[kani::proof]
fn k_proto_table() {
    let n: u8 = kani::any();
    kani::assume(!kf_blocked(n));
    let p = ProtocolTypes::from(n);
    if n <= 144 {
        assert!(p as u8 == n, "name is not the variant declared with this number");
        assert!(u8::from(p) == n, "name -> number is not the inverse");
    } else if n == 255 {
        assert!(p == ProtocolTypes::Reserved);
    } else {
        assert!(p == ProtocolTypes::Unknown);
    }
}
