// Kani harnesses for src/static_versions/v5.rs (child module of that file in the scratch copy).
// Bounded stand-ins (count <= 2) of the contracts that V.v5.parse / V.v5.to_be_bytes prove for all
// counts; they run on the compiled crate, so they stay decidable under any refactoring of the parser or
// exporter, and they supply concrete counterexamples.
use super::*;
use nom_derive::Parse;

const MAXC: usize = 1;
const N: usize = 22 + 48 * MAXC + 1;

fn be16(b: &[u8], o: usize) -> u16 { u16::from_be_bytes([b[o], b[o + 1]]) }
fn be32(b: &[u8], o: usize) -> u32 { u32::from_be_bytes([b[o], b[o + 1], b[o + 2], b[o + 3]]) }

fn check_record(r: &FlowSet, b: &[u8], o: usize) {
    assert!(r.src_addr.octets() == [b[o], b[o + 1], b[o + 2], b[o + 3]]);
    assert!(r.dst_addr.octets() == [b[o + 4], b[o + 5], b[o + 6], b[o + 7]]);
    assert!(r.next_hop.octets() == [b[o + 8], b[o + 9], b[o + 10], b[o + 11]]);
    assert!(r.input == be16(b, o + 12) && r.output == be16(b, o + 14));
    assert!(r.d_pkts == be32(b, o + 16) && r.d_octets == be32(b, o + 20));
    assert!(r.first == be32(b, o + 24) && r.last == be32(b, o + 28));
    assert!(r.src_port == be16(b, o + 32) && r.dst_port == be16(b, o + 34));
    assert!(r.pad1 == b[o + 36] && r.tcp_flags == b[o + 37] && r.protocol_number == b[o + 38] && r.tos == b[o + 39]);
    assert!(r.protocol_type == ProtocolTypes::from(b[o + 38]));
    assert!(r.src_as == be16(b, o + 40) && r.dst_as == be16(b, o + 42));
    assert!(r.src_mask == b[o + 44] && r.dst_mask == b[o + 45] && r.pad2 == be16(b, o + 46));
}

/// B.v5.parse -- C03/C14 for counts 0..=2 and every buffer length 0..=N
#[kani::proof]
#[kani::unwind(5)]
fn b_v5_parse() {
    let buf: [u8; N] = kani::any();
    let n: usize = kani::any();
    kani::assume(n <= N);
    let i = &buf[..n];
    if n >= 2 { kani::assume(be16(i, 0) as usize <= MAXC); }
    match V5::parse(i) {
        Ok((rest, p)) => {
            kani::cover!(p.flowsets.len() == 2, "two records");
            assert!(n >= 22);
            let c = be16(i, 0) as usize;
            assert!(n >= 22 + 48 * c, "a truncated packet was accepted");
            assert!(rest.len() == n - (22 + 48 * c), "packet does not end after 24 + 48*count bytes");
            assert!(p.header.version == 5 && p.header.count as usize == c);
            assert!(p.header.sys_up_time == be32(i, 2) && p.header.unix_secs == be32(i, 6) && p.header.unix_nsecs == be32(i, 10));
            assert!(p.header.flow_sequence == be32(i, 14) && p.header.engine_type == i[18] && p.header.engine_id == i[19]);
            assert!(p.header.sampling_interval == be16(i, 20));
            assert!(p.flowsets.len() == c, "fewer or invented records");
            if c >= 1 { check_record(&p.flowsets[0], i, 22); }
            if c >= 2 { check_record(&p.flowsets[1], i, 22 + 48); }
        }
        Err(_) => {
            kani::cover!(n >= 22, "err with full header");
            assert!(n < 22 || n < 22 + 48 * (be16(i, 0) as usize), "a complete packet was rejected");
        }
    }
}

/// B.v5.roundtrip -- C08 for counts 0..=1: to_be_bytes(parse(b)) == version field ++ consumed bytes
#[kani::proof]
#[kani::unwind(6)]
fn b_v5_roundtrip() {
    let buf: [u8; 22 + 48] = kani::any();
    let n: usize = kani::any();
    kani::assume(n == 22 || n == 22 + 48);
    let i = &buf[..n];
    kani::assume(be16(i, 0) as usize == (n - 22) / 48);
    if let Ok((_, p)) = V5::parse(i) {
        let out = p.to_be_bytes();
        kani::cover!(out.len() == 72, "one record exported");
        assert!(out.len() == 2 + n, "re-export has a different length");
        assert!(out[0] == 0 && out[1] == 5);
        let mut k = 0;
        while k < n { assert!(out[2 + k] == i[k], "re-exported byte differs"); k += 1; }
    } else {
        assert!(false, "complete packet rejected");
    }
}

fn any_record() -> FlowSet {
    FlowSet { src_addr: Ipv4Addr::from(kani::any::<u32>()), dst_addr: Ipv4Addr::from(kani::any::<u32>()), next_hop: Ipv4Addr::from(kani::any::<u32>()),
        input: kani::any(), output: kani::any(), d_pkts: kani::any(), d_octets: kani::any(), first: kani::any(), last: kani::any(),
        src_port: kani::any(), dst_port: kani::any(), tcp_flags: kani::any(), protocol_number: kani::any(),
        protocol_type: ProtocolTypes::Unknown, tos: kani::any(), src_as: kani::any(), dst_as: kani::any(), src_mask: kani::any(), dst_mask: kani::any(), pad1: kani::any(), pad2: kani::any() }
}
fn check_exported(out: &[u8], o: usize, r: &FlowSet) {
    assert!(out[o..o + 4] == r.src_addr.octets() && out[o + 4..o + 8] == r.dst_addr.octets() && out[o + 8..o + 12] == r.next_hop.octets());
    assert!(be16(out, o + 12) == r.input && be16(out, o + 14) == r.output);
    assert!(be32(out, o + 16) == r.d_pkts && be32(out, o + 20) == r.d_octets && be32(out, o + 24) == r.first && be32(out, o + 28) == r.last);
    assert!(be16(out, o + 32) == r.src_port && be16(out, o + 34) == r.dst_port);
    assert!(out[o + 37] == r.tcp_flags && out[o + 38] == r.protocol_number && out[o + 39] == r.tos);
    assert!(be16(out, o + 40) == r.src_as && be16(out, o + 42) == r.dst_as && out[o + 44] == r.src_mask && out[o + 45] == r.dst_mask);
    assert!(out[o + 36] == r.pad1 && be16(out, o + 46) == r.pad2);
}

/// B.v5.export -- C08 encoder side on a constructed structure with one record: every field big-endian
/// at its Cisco offset, records in order, nothing else emitted (no parsing involved: fast)
#[kani::proof]
#[kani::unwind(6)]
fn b_v5_export() {
    let h = Header { version: kani::any(), count: kani::any(), sys_up_time: kani::any(), unix_secs: kani::any(), unix_nsecs: kani::any(),
                     flow_sequence: kani::any(), engine_type: kani::any(), engine_id: kani::any(), sampling_interval: kani::any() };
    let n: usize = 1;
    let mut flowsets = Vec::with_capacity(1);
    flowsets.push(any_record());
    let p = V5 { header: h, flowsets };
    let out = p.to_be_bytes();
    kani::cover!(out.len() == 24 + 1 * 48, "one record");
    assert!(out.len() == 24 + 48 * n, "re-export length is not 24 + 48*records");
    assert!(be16(&out, 0) == h.version && be16(&out, 2) == h.count && be32(&out, 4) == h.sys_up_time);
    assert!(be32(&out, 8) == h.unix_secs && be32(&out, 12) == h.unix_nsecs && be32(&out, 16) == h.flow_sequence);
    assert!(out[20] == h.engine_type && out[21] == h.engine_id && be16(&out, 22) == h.sampling_interval);
    if n >= 1 { check_exported(&out, 24, &p.flowsets[0]); }
    if n >= 2 { check_exported(&out, 24 + 48, &p.flowsets[1]); }
}
