// Inductive lemma for `nom::multi::count(<@T@>::parse, n)` over fixed-width items.
// Parameters: NAME, T (item type), F (item parser), W (item width, literal), DEC (spec decoder (Seq<u8>, int) -> T); `base` = offset of item 0
verus! {
pub open spec fn @NAME@_chain_facts<'a>(b: Seq<u8>, base: int, k: int, ins: Seq<&'a [u8]>, vals: Seq<@T@>) -> bool {
    &&& base + @W@ * k <= b.len()
    &&& ins[k]@ == b.subrange(base + @W@ * k, b.len() as int)
    &&& forall|j: int| 0 <= j < k ==> #[trigger] vals[j] == @DEC@(b, base + @W@ * j)
}
proof fn lemma_@NAME@_chain<'a>(b: Seq<u8>, base: int, k: int, ins: Seq<&'a [u8]>, vals: Seq<@T@>)
    requires
        0 <= k, 0 <= base <= b.len(),
        nom_c::count_ok(@F@, k, ins, vals),
        ins[0]@ == b.subrange(base, b.len() as int),
    ensures @NAME@_chain_facts(b, base, k, ins, vals),
    decreases k,
{
    if k > 0 {
        let ins1 = ins.subrange(0, k);
        let vals1 = vals.subrange(0, k - 1);
        assert(nom_c::count_ok(@F@, k - 1, ins1, vals1)) by {
            assert forall|j: int| 0 <= j < k - 1 implies call_ensures(@F@, (#[trigger] ins1[j],), Ok((ins1[j + 1], vals1[j]))) by {
                assert(ins1[j] == ins[j]);
                assert(call_ensures(@F@, (ins[j],), Ok((ins[j + 1], vals[j]))));
            }
        }
        lemma_@NAME@_chain(b, base, k - 1, ins1, vals1);
        assert(ins[k - 1] == ins1[k - 1]);
        let o = base + @W@ * (k - 1);
        let p = ins[k - 1];
        assert(call_ensures(@F@, (p,), Ok((ins[k], vals[k - 1]))));
        assert(p@ == b.subrange(o, b.len() as int));
        assert(p@.len() >= @W@);
        lemma_track(b, o, p@, ins[k]@);
        lemma_@NAME@_shift(b, o);
        assert(vals[k - 1] == @DEC@(b, o));
        assert forall|j: int| 0 <= j < k implies #[trigger] vals[j] == @DEC@(b, base + @W@ * j) by {
            if j < k - 1 { assert(vals[j] == vals1[j]); }
        }
    }
}
}
