// Shared specification of one V9 flowset (v9::FlowSet::parse / parse_be) and of the flowset loop of a packet
// (v9::FlowSetParser::parse_flowsets).  Included by V.v9.flowset (proves flowset_post), V.v9.flowsets (proves
// flowsets_post on the real loop) and V.v9.packet (uses flowsets_post).  Needs FlowSet, FlowSetHeader, FlowSetBody,
// V9Parser in scope.
verus! {
/// semantic function of FlowSetBody::parse: result (None on error) and the parser afterwards
pub uninterp spec fn body_fn(st: V9Parser, b: Seq<u8>, id: u16) -> (Option<FlowSetBody>, V9Parser);
pub open spec fn set_body_len(b: Seq<u8>) -> int { if be16(b, 2) >= 4 { be16(b, 2) - 4 } else { 0 } }

pub open spec fn flowset_post<'a>(old_p: V9Parser, new_p: V9Parser, b: &'a [u8], r: IResult<&'a [u8], FlowSet>) -> bool {
    if b@.len() < 4 || b@.len() < 4 + set_body_len(b@) {
        r is Err && new_p == old_p                   // announced bytes missing: nothing interpreted, caches untouched
    } else {
        let l = set_body_len(b@);
        let (body, st1) = body_fn(old_p, b@.subrange(4, 4 + l), be16(b@, 0));
        &&& new_p == st1                             // the caches change exactly as FlowSetBody::parse changes them
        &&& (body is None ==> r is Err)
        &&& (body is Some ==> r is Ok && r->Ok_0.1.body == body->0
                && r->Ok_0.1.header.flowset_id == be16(b@, 0) && r->Ok_0.1.header.length == be16(b@, 2)
                && r->Ok_0.0@ == b@.subrange(4 + l, b@.len() as int))   // consumes max(length, 4) bytes
    }
}

/// one flowset read from the front of b: the flowset and the bytes after it, or None; and the parser afterwards
pub open spec fn set_step(st: V9Parser, b: Seq<u8>) -> (Option<(FlowSet, Seq<u8>)>, V9Parser) {
    if b.len() < 4 || b.len() < 4 + set_body_len(b) { (None, st) } else {
        let l = set_body_len(b);
        let (body, st1) = body_fn(st, b.subrange(4, 4 + l), be16(b, 0));
        match body {
            None => (None, st1),
            Some(bd) => (Some((FlowSet { header: FlowSetHeader { flowset_id: be16(b, 0), length: be16(b, 2) }, body: bd },
                               b.subrange(4 + l, b.len() as int))), st1),
        }
    }
}
/// the flowsets of a packet body: up to n of them, back to back, each from where the previous one ended, stopping
/// early only at the end of the bytes; None if one of them cannot be read (the whole packet is then an error, C07/C14).
/// Result: (flowsets, unread bytes) and the parser afterwards.
pub open spec fn flowsets_spec(st: V9Parser, b: Seq<u8>, n: int) -> (Option<(Seq<FlowSet>, Seq<u8>)>, V9Parser)
    decreases n
{
    if n <= 0 || b.len() == 0 {
        (Some((Seq::<FlowSet>::empty(), b)), st)
    } else {
        let (r, st1) = set_step(st, b);
        match r {
            None => (None, st1),
            Some((f, rest)) => {
                let (r2, st2) = flowsets_spec(st1, rest, n - 1);
                match r2 { None => (None, st2), Some((fs, rem)) => (Some((seq![f] + fs, rem)), st2) }
            },
        }
    }
}
pub open spec fn res_eq(a: (Option<(Seq<FlowSet>, Seq<u8>)>, V9Parser), b: (Option<(Seq<FlowSet>, Seq<u8>)>, V9Parser)) -> bool {
    a.1 == b.1 && match (a.0, b.0) { (None, None) => true, (Some((f1, r1)), Some((f2, r2))) => f1 =~= f2 && r1 =~= r2, _ => false }
}
pub open spec fn flowsets_post<'a>(old_p: V9Parser, new_p: V9Parser, b: &'a [u8], n: u16, r: IResult<&'a [u8], Vec<FlowSet>>) -> bool {
    res_eq((match r { Ok((rem, v)) => Some((v@, rem@)), Err(_) => None }, new_p), flowsets_spec(old_p, b@, n as int))
}
/// a suffix of a suffix is a suffix
pub proof fn lemma_suffix_trans(a: Seq<u8>, b: Seq<u8>, c: Seq<u8>)
    requires is_suffix(a, b), is_suffix(b, c),
    ensures is_suffix(a, c),
{
    assert(a =~= c.subrange(c.len() - a.len(), c.len() as int));
}
/// what the flowset loop leaves unread is a suffix of what it was given
pub proof fn lemma_flowsets_suffix(st: V9Parser, b: Seq<u8>, n: int)
    ensures flowsets_spec(st, b, n).0 matches Some((_, rest)) ==> is_suffix(rest, b),
    decreases n
{
    if n <= 0 || b.len() == 0 {
        assert(b =~= b.subrange(0, b.len() as int));
    } else {
        let (r, st1) = set_step(st, b);
        if r is Some {
            let rest = r->Some_0.1;
            assert(rest =~= b.subrange(b.len() - rest.len(), b.len() as int));
            lemma_flowsets_suffix(st1, rest, n - 1);
            let r2 = flowsets_spec(st1, rest, n - 1).0;
            if r2 is Some { lemma_suffix_trans(r2->Some_0.1, rest, b); }
        }
    }
}
} // verus!
