// ---------------------------------------------------------------------------
// prelude.rs -- shims and trusted specifications shared by every Verus unit.
// Everything in this file is part of the TRUSTED BASE (DESIGN.md §3.2); it contains
// no code of /repo.  `external_body` here means "behaviour of nom / std, assumed".
// ---------------------------------------------------------------------------
#![allow(unused_imports, dead_code, unused_variables, non_snake_case, unused_mut, unused_parens, unused_braces)]
use vstd::prelude::*;
use std::collections::HashSet;
use std::collections::BTreeMap;
use std::collections::HashMap;

verus! {

// ---- nom data types (data only; mirrors nom 7.1.3) ---------------------------
pub mod nom {
    use vstd::prelude::*;
    pub mod error {
        use vstd::prelude::*;
        #[derive(Clone, Copy, PartialEq, Eq)]
        pub enum ErrorKind { Verify, Fail, Eof, Count, Many0, MapRes, Tag, Complete }
        pub struct Error<I> { pub input: I, pub code: ErrorKind }
        impl<I> Error<I> {
            pub fn new(input: I, code: ErrorKind) -> (r: Error<I>)
                ensures r.input == input, r.code == code
            { Error { input, code } }
        }
    }
    pub enum Needed { Unknown, Size(usize) }
    pub enum Err<E> { Incomplete(Needed), Error(E), Failure(E) }
    impl<E> Err<E> {
        // stands for `<Err<E> as ToString>::to_string` (Display text; content unspecified)
        #[verifier::external_body]
        pub fn to_string(&self) -> String { unimplemented!() }
    }
    pub type IResult<I, O> = Result<(I, O), Err<error::Error<I>>>;
    pub mod bytes { pub mod complete { pub use crate::nom_c::take; } pub mod streaming { pub use crate::nom_c::take_streaming as take; } }
    pub mod multi { pub use crate::nom_c::count; pub use crate::nom_c::many0; }
    pub mod combinator { pub use crate::nom_c::map; pub use crate::nom_c::cond; pub use crate::nom_c::complete; }
}
pub use nom::IResult;
pub use nom_c::{take, count, many0, complete, map, cond};
pub use nom::Err as NomErr;
pub use nom::error::{Error as NomError, ErrorKind};

// ---- byte-sequence vocabulary ------------------------------------------------
pub open spec fn be16(s: Seq<u8>, o: int) -> u16 { ((s[o] as u16) * 256 + (s[o + 1] as u16)) as u16 }
pub open spec fn be32(s: Seq<u8>, o: int) -> u32 {
    ((s[o] as u32) * 16777216 + (s[o + 1] as u32) * 65536 + (s[o + 2] as u32) * 256 + (s[o + 3] as u32)) as u32
}
pub open spec fn suffix_at(whole: Seq<u8>, k: int, part: Seq<u8>) -> bool {
    0 <= k <= whole.len() && part == whole.subrange(k, whole.len() as int)
}
pub open spec fn is_suffix(part: Seq<u8>, whole: Seq<u8>) -> bool {
    part.len() <= whole.len() && part == whole.subrange(whole.len() - part.len(), whole.len() as int)
}

pub broadcast proof fn lemma_sub_sub(s: Seq<u8>, a: int, b: int)
    requires 0 <= a <= s.len(), 0 <= b <= s.len() - a,
    ensures #[trigger] s.subrange(a, s.len() as int).subrange(b, s.len() - a) == s.subrange(a + b, s.len() as int),
{
    assert(s.subrange(a, s.len() as int).subrange(b, s.len() - a) =~= s.subrange(a + b, s.len() as int));
}

pub broadcast proof fn lemma_suffix_after2(part: Seq<u8>, whole: Seq<u8>)
    requires whole.len() >= 2, #[trigger] is_suffix(part, whole.subrange(2, whole.len() as int)),
    ensures is_suffix(part, whole),
{
    let rest = whole.subrange(2, whole.len() as int);
    assert(part =~= whole.subrange(whole.len() - part.len(), whole.len() as int));
}

pub proof fn lemma_sub_sub2(s: Seq<u8>, a: int, c: int, x: int, y: int)
    requires 0 <= a <= c <= s.len(), 0 <= x <= y <= c - a,
    ensures s.subrange(a, c).subrange(x, y) == s.subrange(a + x, a + y),
{
    assert(s.subrange(a, c).subrange(x, y) =~= s.subrange(a + x, a + y));
}

/// offset tracking step used by the `track:` hints (see tools/extract.py)
pub proof fn lemma_track(orig: Seq<u8>, off: int, p: Seq<u8>, n: Seq<u8>)
    requires
        0 <= off <= orig.len(), p == orig.subrange(off, orig.len() as int),
        n.len() <= p.len(), n == p.subrange(p.len() - n.len(), p.len() as int) || n == p,
    ensures
        n == orig.subrange(off + (p.len() - n.len()), orig.len() as int),
{
    assert(n =~= orig.subrange(off + (p.len() - n.len()), orig.len() as int));
}

// ---- std specs missing from vstd ----------------------------------------------
pub assume_specification<T: Clone> [<[T]>::to_vec] (s: &[T]) -> (r: Vec<T>)
    ensures r@.len() == s@.len(), forall|i: int| 0 <= i < s@.len() ==> cloned(s@[i], #[trigger] r@[i]);

// `Vec::from(slice)` is `slice.to_vec()` (std: impl<T: Clone> From<&[T]> for Vec<T>)
pub assume_specification<'a, T: Clone> [<Vec<T> as From<&'a [T]>>::from] (s: &[T]) -> (r: Vec<T>)
    ensures r@.len() == s@.len(), forall|i: int| 0 <= i < s@.len() ==> cloned(s@[i], #[trigger] r@[i]);

pub assume_specification [u16::overflowing_sub] (a: u16, b: u16) -> (r: (u16, bool))
    ensures r.0 as int == (if a >= b { a - b } else { a - b + 65536 }), r.1 == (a < b);

pub broadcast proof fn lemma_cloned_u8(a: u8, b: u8) requires #[trigger] cloned(a, b) ensures a == b {}

pub proof fn lemma_to_vec_u8(s: Seq<u8>, r: Seq<u8>)
    requires r.len() == s.len(), forall|i: int| 0 <= i < s.len() ==> cloned(s[i], #[trigger] r[i])
    ensures r == s
{
    assert forall|i: int| 0 <= i < s.len() implies r[i] == s[i] by { assert(cloned(s[i], r[i])); }
    assert(r =~= s);
}

} // verus!
//@ include nom_prims.rs
