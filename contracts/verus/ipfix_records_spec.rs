// Shared specification of the IPFIX data-record decoder (ipfix::FieldParser::parse).
// Needs IPFixField, FieldValue, TemplateField, IPFixFieldPair in scope.
verus! {
/// semantic function of ipfix::TemplateField::parse_as_field_value (its contract: V.ipfix.field_value):
/// the value of one field read at the front of b, and the bytes after it
pub uninterp spec fn ifv(f: TemplateField, b: Seq<u8>) -> Option<(FieldValue, Seq<u8>)>;
pub open spec fn nom_view<T>(r: IResult<&[u8], T>) -> Option<(T, Seq<u8>)> {
    match r { Ok((rest, v)) => Some((v, rest@)), Err(_) => None }
}
/// the values of fields k.. of one record read from the front of b, in template order, and the bytes after them
pub open spec fn irec(fields: Seq<TemplateField>, k: int, b: Seq<u8>) -> Option<(Seq<FieldValue>, Seq<u8>)>
    decreases fields.len() - k
{
    if k >= fields.len() || k < 0 { Some((Seq::<FieldValue>::empty(), b)) } else {
        match ifv(fields[k], b) {
            None => None,
            Some((v, rest)) => match irec(fields, k + 1, rest) {
                None => None,
                Some((vs, r)) => Some((seq![v] + vs, r)),
            },
        }
    }
}
/// consecutive records: after a record that took `taken` bytes another one is read iff taken > 0 and at least
/// `taken` bytes are left; a field that cannot be decoded fails the whole set (None); what is left is padding
pub open spec fn irecs(fields: Seq<TemplateField>, b: Seq<u8>) -> Option<(Seq<Seq<FieldValue>>, Seq<u8>)>
    decreases b.len()
{
    match irec(fields, 0, b) {
        None => None,
        Some((vs, rest)) => {
            let taken = b.len() - rest.len();
            if taken <= 0 || rest.len() < taken { Some((seq![vs], rest)) } else {
                match irecs(fields, rest) {
                    None => None,
                    Some((more, r)) => Some((seq![vs] + more, r)),
                }
            }
        }
    }
}
/// the library reports every field of every record as its own single-entry map: key = position of the field in the
/// template, value = (field type, decoded value); records follow one another in the same vector
pub open spec fn single(fields: Seq<TemplateField>, c: int, v: FieldValue) -> Map<usize, IPFixFieldPair> {
    Map::<usize, IPFixFieldPair>::empty().insert(c as usize, (fields[c].field_type, v))
}
pub open spec fn row_maps(fields: Seq<TemplateField>, vs: Seq<FieldValue>) -> Seq<Map<usize, IPFixFieldPair>> {
    Seq::new(vs.len(), |c: int| single(fields, c, vs[c]))
}
pub open spec fn flat_maps(fields: Seq<TemplateField>, rows: Seq<Seq<FieldValue>>) -> Seq<Map<usize, IPFixFieldPair>>
    decreases rows.len()
{
    if rows.len() == 0 { Seq::<Map<usize, IPFixFieldPair>>::empty() }
    else { flat_maps(fields, rows.drop_last()) + row_maps(fields, rows.last()) }
}
pub open spec fn out_view(out: Seq<BTreeMap<usize, IPFixFieldPair>>) -> Seq<Map<usize, IPFixFieldPair>> {
    Seq::new(out.len(), |j: int| out[j]@)
}
pub open spec fn ipfix_records_post<'a>(i: &'a [u8], fields: Seq<TemplateField>, r: IResult<&'a [u8], Vec<BTreeMap<usize, IPFixFieldPair>>>) -> bool {
    match irecs(fields, i@) {
        None => r is Err,
        Some((rows, rest)) => r is Ok && r->Ok_0.0@ =~= rest && out_view(r->Ok_0.1@) =~= flat_maps(fields, rows),
    }
}
} // verus!
