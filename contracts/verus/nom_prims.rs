// ---------------------------------------------------------------------------
// nom_prims.rs -- TRUSTED specifications of the nom 7.1.3 / nom-derive 0.10.1 primitives the
// crate is built from.  Bodies are absent (external_body): these are assumptions about the
// dependency, cross-checked on the real nom by the Kani harnesses K.nom.* (kani/h_lib.rs).
// ---------------------------------------------------------------------------
use std::net::Ipv4Addr;
verus! {

pub open spec fn enc16(x: u16) -> Seq<u8> { seq![(x / 256) as u8, (x % 256) as u8] }
pub open spec fn enc32(x: u32) -> Seq<u8> {
    seq![(x / 16777216) as u8, ((x / 65536) % 256) as u8, ((x / 256) % 256) as u8, (x % 256) as u8]
}

/// a fixed-width big-endian primitive: Err when fewer than `w` bytes, else consumes exactly `w`
pub open spec fn fixed_post<'a, T>(i: &'a [u8], r: IResult<&'a [u8], T>, w: int) -> bool {
    if i@.len() < w { r is Err } else { r is Ok && r->Ok_0.0@ == i@.subrange(w, i@.len() as int) }
}

#[verifier::external_body]
pub fn be_u8<'a>(i: &'a [u8]) -> (r: IResult<&'a [u8], u8>)
    ensures fixed_post(i, r, 1), r is Ok ==> r->Ok_0.1 == i@[0],
{ unimplemented!() }
#[verifier::external_body]
pub fn be_u16<'a>(i: &'a [u8]) -> (r: IResult<&'a [u8], u16>)
    ensures fixed_post(i, r, 2), r is Ok ==> r->Ok_0.1 == be16(i@, 0),
{ unimplemented!() }
#[verifier::external_body]
pub fn be_u32<'a>(i: &'a [u8]) -> (r: IResult<&'a [u8], u32>)
    ensures fixed_post(i, r, 4), r is Ok ==> r->Ok_0.1 == be32(i@, 0),
{ unimplemented!() }

// R7: `<uN>::parse_be(i)` / `uN::parse(i)` (nom_derive::Parse for primitives == be_uN)
#[verifier::external_body]
pub fn vf_parse_u8<'a>(i: &'a [u8]) -> (r: IResult<&'a [u8], u8>)
    ensures fixed_post(i, r, 1), r is Ok ==> r->Ok_0.1 == i@[0],
{ unimplemented!() }
#[verifier::external_body]
pub fn vf_parse_u16<'a>(i: &'a [u8]) -> (r: IResult<&'a [u8], u16>)
    ensures fixed_post(i, r, 2), r is Ok ==> r->Ok_0.1 == be16(i@, 0),
{ unimplemented!() }
#[verifier::external_body]
pub fn vf_parse_u32<'a>(i: &'a [u8]) -> (r: IResult<&'a [u8], u32>)
    ensures fixed_post(i, r, 4), r is Ok ==> r->Ok_0.1 == be32(i@, 0),
{ unimplemented!() }

// ---- std::net::Ipv4Addr (external type) ----------------------------------------------
#[verifier::external_type_specification]
#[verifier::external_body]
pub struct ExIpv4Addr(Ipv4Addr);
/// Ipv4Addr::from(u32): "0x0d0c0b0a -> 13.12.11.10" (std doc), i.e. octets are the big-endian bytes
pub uninterp spec fn ipv4_of(x: u32) -> Ipv4Addr;
pub uninterp spec fn ipv4_octets(a: Ipv4Addr) -> Seq<u8>;
pub broadcast axiom fn axiom_ipv4_octets(x: u32)
    ensures #[trigger] ipv4_octets(ipv4_of(x)) == enc32(x);
pub broadcast axiom fn axiom_ipv4_inj(a: Ipv4Addr)
    ensures #[trigger] ipv4_octets(a).len() == 4,
            ipv4_of(be32(ipv4_octets(a), 0)) == a;
pub assume_specification [<Ipv4Addr as From<u32>>::from] (x: u32) -> (r: Ipv4Addr)
    ensures r == ipv4_of(x);

// ---- combinators ---------------------------------------------------------------------
pub mod nom_c {
    use vstd::prelude::*;
    use super::*;

    /// nom::combinator::map(parser, f)
    #[verifier::external_body]
    pub fn map<'a, O1, O2, F: Fn(&'a [u8]) -> IResult<&'a [u8], O1>, G: Fn(O1) -> O2>(parser: F, f: G)
        -> (h: impl Fn(&'a [u8]) -> IResult<&'a [u8], O2>)
        requires forall|i: &'a [u8]| parser.requires((i,)), forall|v: O1| f.requires((v,)),
        ensures
            forall|i: &'a [u8]| h.requires((i,)),
            forall|i: &'a [u8], r: IResult<&'a [u8], O2>| #[trigger] h.ensures((i,), r) ==>
                exists|r1: IResult<&'a [u8], O1>| #[trigger] parser.ensures((i,), r1) && (r1 is Err ==> r is Err)
                    && (r1 is Ok ==> r is Ok && r->Ok_0.0 == r1->Ok_0.0 && f.ensures((r1->Ok_0.1,), r->Ok_0.1)),
    { move |i| { unimplemented!() } }

    /// chain of `n` successful applications of f starting at `i`, producing `vals` and ending at `end`
    pub open spec fn count_ok<'a, O, F: Fn(&'a [u8]) -> IResult<&'a [u8], O>>(
        f: F, n: int, ins: Seq<&'a [u8]>, vals: Seq<O>) -> bool {
        &&& ins.len() == n + 1 && vals.len() == n
        &&& forall|k: int| 0 <= k < n ==> f.ensures((#[trigger] ins[k],), Ok((ins[k + 1], vals[k])))
    }
    /// nom::multi::count(f, n): n successes in sequence, or the first failure is returned as failure
    #[verifier::external_body]
    pub fn count<'a, O, F: Fn(&'a [u8]) -> IResult<&'a [u8], O>>(f: F, n: usize)
        -> (h: impl Fn(&'a [u8]) -> IResult<&'a [u8], Vec<O>>)
        requires forall|i: &'a [u8]| f.requires((i,)),
        ensures
            forall|i: &'a [u8]| h.requires((i,)),
            forall|i: &'a [u8], r: IResult<&'a [u8], Vec<O>>| #[trigger] h.ensures((i,), r) ==> (
                (r is Ok ==> exists|ins: Seq<&'a [u8]>| #[trigger] count_ok(f, n as int, ins, r->Ok_0.1@)
                                && ins[0] == i && ins[n as int] == r->Ok_0.0)
                && (r is Err ==> exists|ins: Seq<&'a [u8]>, vals: Seq<O>, k: int, e: nom::Err<nom::error::Error<&'a [u8]>>|
                                0 <= k < n && #[trigger] count_ok(f, k, ins, vals) && ins[0] == i
                                && #[trigger] f.ensures((ins[k],), Err(e)))),
    { move |i| { unimplemented!() } }
}
pub mod nom_paths {
    // so that `nom::multi::count`, `nom::combinator::map` in expanded code resolve
}

} // verus!
