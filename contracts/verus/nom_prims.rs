// ---------------------------------------------------------------------------
// nom_prims.rs -- TRUSTED specifications of the nom 7.1.3 / nom-derive 0.10.1 primitives the
// crate is built from.  Bodies are absent (external_body): these are assumptions about the
// dependency, cross-checked on the real nom by the Kani harnesses K.nom.* (kani/h_lib.rs).
// ---------------------------------------------------------------------------
use std::net::Ipv4Addr;
verus! {

pub open spec fn enc16(x: u16) -> Seq<u8> { seq![(x / 256) as u8, (x % 256) as u8] }
pub open spec fn enc32(x: u32) -> Seq<u8> {
    seq![(x / 16777216) as u8, ((x / 65536) % 256) as u8, ((x / 256) % 256) as u8, (x % 256) as u8]
}

// bit-level facts (bit_vector back end: independent of the surrounding context)
pub proof fn lemma_bv16(a: u8, b: u8)
    ensures ({ let x = ((a as u16) * 256 + (b as u16)) as u16; (x / 256) as u8 == a && (x % 256) as u8 == b })
{
    let a16 = a as u16; let b16 = b as u16;
    let x = (a16 * 256 + b16) as u16;
    assert(a16 * 256 + b16 < 0x1_0000) by (nonlinear_arith) requires a16 < 256, b16 < 256;
    assert((x / 256) == a16 && (x % 256) == b16) by (bit_vector) requires x == a16 * 256 + b16, a16 < 256, b16 < 256;
}
pub proof fn lemma_bv16_inv(x: u16)
    ensures ((((x / 256) as u8) as u16) * 256 + (((x % 256) as u8) as u16)) as u16 == x
{
    let a = x / 256; let b = x % 256;
    assert(a < 256 && b < 256 && a * 256 + b == x) by (bit_vector) requires a == x / 256, b == x % 256;
}
pub proof fn lemma_bv32(a: u8, b: u8, c: u8, d: u8)
    ensures ({ let x = ((a as u32) * 16777216 + (b as u32) * 65536 + (c as u32) * 256 + (d as u32)) as u32;
       (x / 16777216) as u8 == a && ((x / 65536) % 256) as u8 == b && ((x / 256) % 256) as u8 == c && (x % 256) as u8 == d })
{
    let a32 = a as u32; let b32 = b as u32; let c32 = c as u32; let d32 = d as u32;
    let x = (a32 * 16777216 + b32 * 65536 + c32 * 256 + d32) as u32;
    assert(a32 * 16777216 + b32 * 65536 + c32 * 256 + d32 < 0x1_0000_0000) by (nonlinear_arith)
        requires a32 < 256, b32 < 256, c32 < 256, d32 < 256;
    assert((x / 16777216) == a32 && ((x / 65536) % 256) == b32 && ((x / 256) % 256) == c32 && (x % 256) == d32) by (bit_vector)
        requires x == a32 * 16777216 + b32 * 65536 + c32 * 256 + d32, a32 < 256, b32 < 256, c32 < 256, d32 < 256;
}
pub proof fn lemma_bv32_inv(x: u32)
    ensures ((((x / 16777216) as u8) as u32) * 16777216 + ((((x / 65536) % 256) as u8) as u32) * 65536
             + ((((x / 256) % 256) as u8) as u32) * 256 + (((x % 256) as u8) as u32)) as u32 == x
{
    let a = x / 16777216; let b = (x / 65536) % 256; let c = (x / 256) % 256; let d = x % 256;
    assert(a < 256 && b < 256 && c < 256 && d < 256 && a * 16777216 + b * 65536 + c * 256 + d == x) by (bit_vector)
       requires a == x / 16777216, b == (x / 65536) % 256, c == (x / 256) % 256, d == x % 256;
}
pub proof fn lemma_enc16(b: Seq<u8>, o: int) requires 0 <= o, o + 2 <= b.len() ensures enc16(be16(b, o)) == b.subrange(o, o + 2) {
    lemma_bv16(b[o], b[o + 1]);
    assert(enc16(be16(b, o)) =~= b.subrange(o, o + 2));
}
pub proof fn lemma_enc32(b: Seq<u8>, o: int) requires 0 <= o, o + 4 <= b.len() ensures enc32(be32(b, o)) == b.subrange(o, o + 4) {
    lemma_bv32(b[o], b[o + 1], b[o + 2], b[o + 3]);
    assert(enc32(be32(b, o)) =~= b.subrange(o, o + 4));
}
pub proof fn lemma_dec16(x: u16) ensures be16(enc16(x), 0) == x, enc16(x).len() == 2 { lemma_bv16_inv(x); }
pub proof fn lemma_dec32(x: u32) ensures be32(enc32(x), 0) == x, enc32(x).len() == 4 { lemma_bv32_inv(x); }
pub proof fn lemma_seq_join(b: Seq<u8>, a: int, m: int, c: int)
    requires 0 <= a <= m <= c <= b.len() ensures b.subrange(a, m) + b.subrange(m, c) == b.subrange(a, c)
{ assert(b.subrange(a, m) + b.subrange(m, c) =~= b.subrange(a, c)); }
pub proof fn lemma_seq_split_eq(x1: Seq<u8>, y1: Seq<u8>, x2: Seq<u8>, y2: Seq<u8>)
    requires x1 + y1 == x2 + y2, x1.len() == x2.len() ensures x1 == x2, y1 == y2
{
    let z1 = x1 + y1;
    let z2 = x2 + y2;
    assert(z1.len() == x1.len() + y1.len() && z2.len() == x2.len() + y2.len());
    assert forall|i: int| 0 <= i < x1.len() implies x1[i] == x2[i] by { assert(z1[i] == x1[i]); assert(z2[i] == x2[i]); }
    assert(x1 =~= x2);
    assert forall|i: int| 0 <= i < y1.len() implies y1[i] == y2[i] by {
        assert(z1[x1.len() + i] == y1[i]); assert(z2[x2.len() + i] == y2[i]);
    }
    assert(y1 =~= y2);
}

/// a fixed-width big-endian primitive: Err when fewer than `w` bytes, else consumes exactly `w`
pub open spec fn fixed_post<'a, T>(i: &'a [u8], r: IResult<&'a [u8], T>, w: int) -> bool {
    if i@.len() < w { r is Err && r->Err_0 is Error /* complete-mode: recoverable Error(Eof) */ }
    else { r is Ok && r->Ok_0.0@ == i@.subrange(w, i@.len() as int) }
}

#[verifier::external_body]
pub fn be_u8<'a>(i: &'a [u8]) -> (r: IResult<&'a [u8], u8>)
    ensures fixed_post(i, r, 1), r is Ok ==> r->Ok_0.1 == i@[0],
{ unimplemented!() }
#[verifier::external_body]
pub fn be_u16<'a>(i: &'a [u8]) -> (r: IResult<&'a [u8], u16>)
    ensures fixed_post(i, r, 2), r is Ok ==> r->Ok_0.1 == be16(i@, 0),
{ unimplemented!() }
#[verifier::external_body]
pub fn be_u32<'a>(i: &'a [u8]) -> (r: IResult<&'a [u8], u32>)
    ensures fixed_post(i, r, 4), r is Ok ==> r->Ok_0.1 == be32(i@, 0),
{ unimplemented!() }

// R7: `<uN>::parse_be(i)` / `uN::parse(i)` (nom_derive::Parse for primitives == be_uN)
#[verifier::external_body]
pub fn vf_parse_u8<'a>(i: &'a [u8]) -> (r: IResult<&'a [u8], u8>)
    ensures fixed_post(i, r, 1), r is Ok ==> r->Ok_0.1 == i@[0],
{ unimplemented!() }
#[verifier::external_body]
pub fn vf_parse_u16<'a>(i: &'a [u8]) -> (r: IResult<&'a [u8], u16>)
    ensures fixed_post(i, r, 2), r is Ok ==> r->Ok_0.1 == be16(i@, 0),
{ unimplemented!() }
#[verifier::external_body]
pub fn vf_parse_u32<'a>(i: &'a [u8]) -> (r: IResult<&'a [u8], u32>)
    ensures fixed_post(i, r, 4), r is Ok ==> r->Ok_0.1 == be32(i@, 0),
{ unimplemented!() }

// R11: `usize::from(x)` for x: u16 (lossless widening)
pub fn vf_usize_from(x: u16) -> (r: usize) ensures r == x as usize { x as usize }

// `<Vec<u8>>::parse_be` == many0(complete(be_u8)): takes every remaining byte, never fails
#[verifier::external_body]
pub fn vf_parse_vec_u8<'a>(i: &'a [u8]) -> (r: IResult<&'a [u8], Vec<u8>>)
    ensures r is Ok, r->Ok_0.0@.len() == 0, r->Ok_0.1@ == i@,
{ unimplemented!() }

// ---- std::net::Ipv4Addr (external type) ----------------------------------------------
#[verifier::external_type_specification]
#[verifier::external_body]
pub struct ExIpv4Addr(Ipv4Addr);
/// Ipv4Addr::from(u32): "0x0d0c0b0a -> 13.12.11.10" (std doc), i.e. octets are the big-endian bytes
pub uninterp spec fn ipv4_of(x: u32) -> Ipv4Addr;
pub uninterp spec fn ipv4_octets(a: Ipv4Addr) -> Seq<u8>;
pub broadcast axiom fn axiom_ipv4_octets(x: u32)
    ensures #[trigger] ipv4_octets(ipv4_of(x)) == enc32(x);
pub broadcast axiom fn axiom_ipv4_inj(a: Ipv4Addr)
    ensures #[trigger] ipv4_octets(a).len() == 4,
            ipv4_of(be32(ipv4_octets(a), 0)) == a;
pub assume_specification [<Ipv4Addr as From<u32>>::from] (x: u32) -> (r: Ipv4Addr)
    ensures r == ipv4_of(x);

// ---- combinators ---------------------------------------------------------------------
pub trait VfCount: Sized { spec fn vf_count(self) -> int; }
impl VfCount for u8 { open spec fn vf_count(self) -> int { self as int } }
impl VfCount for u16 { open spec fn vf_count(self) -> int { self as int } }
impl VfCount for u32 { open spec fn vf_count(self) -> int { self as int } }
impl VfCount for usize { open spec fn vf_count(self) -> int { self as int } }

pub mod nom_c {
    use vstd::prelude::*;
    use super::*;

    /// nom::bytes::complete::take(n): the first n bytes, or a recoverable Error when fewer are present
    #[verifier::external_body]
    pub fn take<'a, C: VfCount>(count: C) -> (h: impl Fn(&'a [u8]) -> IResult<&'a [u8], &'a [u8]>)
        ensures
            forall|i: &'a [u8]| h.requires((i,)),
            forall|i: &'a [u8], r: IResult<&'a [u8], &'a [u8]>| #[trigger] h.ensures((i,), r) ==>
                if i@.len() < count.vf_count() { r is Err && r->Err_0 is Error } else {
                    r is Ok && r->Ok_0.1@ == i@.subrange(0, count.vf_count())
                    && r->Ok_0.0@ == i@.subrange(count.vf_count(), i@.len() as int) },
    { move |i| { unimplemented!() } }

    /// nom::bytes::streaming::take(n): the first n bytes, or Incomplete when fewer are present
    #[verifier::external_body]
    pub fn take_streaming<'a, C: VfCount>(count: C) -> (h: impl Fn(&'a [u8]) -> IResult<&'a [u8], &'a [u8]>)
        ensures
            forall|i: &'a [u8]| h.requires((i,)),
            forall|i: &'a [u8], r: IResult<&'a [u8], &'a [u8]>| #[trigger] h.ensures((i,), r) ==>
                if i@.len() < count.vf_count() { r is Err && r->Err_0 is Incomplete } else {
                    r is Ok && r->Ok_0.1@ == i@.subrange(0, count.vf_count())
                    && r->Ok_0.0@ == i@.subrange(count.vf_count(), i@.len() as int) },
    { move |i| { unimplemented!() } }

    /// nom::combinator::map(parser, f)
    #[verifier::external_body]
    pub fn map<'a, O1, O2, F: Fn(&'a [u8]) -> IResult<&'a [u8], O1>, G: Fn(O1) -> O2>(parser: F, f: G)
        -> (h: impl Fn(&'a [u8]) -> IResult<&'a [u8], O2>)
        requires forall|i: &'a [u8]| parser.requires((i,)), forall|v: O1| f.requires((v,)),
        ensures
            forall|i: &'a [u8]| h.requires((i,)),
            forall|i: &'a [u8], r: IResult<&'a [u8], O2>| #[trigger] h.ensures((i,), r) ==>
                exists|r1: IResult<&'a [u8], O1>| #[trigger] parser.ensures((i,), r1) && (r1 is Err ==> r is Err && r->Err_0 == r1->Err_0)
                    && (r1 is Ok ==> r is Ok && r->Ok_0.0 == r1->Ok_0.0 && f.ensures((r1->Ok_0.1,), r->Ok_0.1)),
    { move |i| { unimplemented!() } }

    /// nom::combinator::cond(b, f): Some(f's value) when b, else None without consuming
    #[verifier::external_body]
    pub fn cond<'a, O, F: Fn(&'a [u8]) -> IResult<&'a [u8], O>>(b: bool, f: F)
        -> (h: impl Fn(&'a [u8]) -> IResult<&'a [u8], Option<O>>)
        requires forall|i: &'a [u8]| f.requires((i,)),
        ensures
            forall|i: &'a [u8]| h.requires((i,)),
            forall|i: &'a [u8], r: IResult<&'a [u8], Option<O>>| #[trigger] h.ensures((i,), r) ==>
                if b {
                    exists|r1: IResult<&'a [u8], O>| #[trigger] f.ensures((i,), r1) && (r1 is Err ==> r is Err && r->Err_0 == r1->Err_0)
                        && (r1 is Ok ==> r is Ok && r->Ok_0.0 == r1->Ok_0.0 && r->Ok_0.1 == Some(r1->Ok_0.1))
                } else {
                    r is Ok && r->Ok_0.0 == i && r->Ok_0.1 is None
                },
    { move |i| { unimplemented!() } }

    /// chain of `n` successful applications of f starting at `i`, producing `vals` and ending at `end`
    pub open spec fn count_ok<'a, O, F: Fn(&'a [u8]) -> IResult<&'a [u8], O>>(
        f: F, n: int, ins: Seq<&'a [u8]>, vals: Seq<O>) -> bool {
        &&& ins.len() == n + 1 && vals.len() == n
        &&& forall|k: int| 0 <= k < n ==> f.ensures((#[trigger] ins[k],), Ok((ins[k + 1], vals[k])))
    }
    /// nom::multi::count(f, n): n successes in sequence, or the first failure is returned as failure
    #[verifier::external_body]
    pub fn count<'a, O, F: Fn(&'a [u8]) -> IResult<&'a [u8], O>>(f: F, n: usize)
        -> (h: impl Fn(&'a [u8]) -> IResult<&'a [u8], Vec<O>>)
        requires forall|i: &'a [u8]| f.requires((i,)),
        ensures
            forall|i: &'a [u8]| h.requires((i,)),
            forall|i: &'a [u8], r: IResult<&'a [u8], Vec<O>>| #[trigger] h.ensures((i,), r) ==> (
                (r is Ok ==> exists|ins: Seq<&'a [u8]>| #[trigger] count_ok(f, n as int, ins, r->Ok_0.1@)
                                && ins[0] == i && ins[n as int] == r->Ok_0.0)
                && (r is Err ==> exists|ins: Seq<&'a [u8]>, vals: Seq<O>, k: int, e: nom::Err<nom::error::Error<&'a [u8]>>|
                                0 <= k < n && #[trigger] count_ok(f, k, ins, vals) && ins[0] == i
                                && #[trigger] f.ensures((ins[k],), Err(e)) && (e is Error <==> r->Err_0 is Error))),
    { move |i| { unimplemented!() } }

    /// nom::combinator::complete(f): f, with Incomplete turned into an Error
    #[verifier::external_body]
    pub fn complete<'a, O, F: Fn(&'a [u8]) -> IResult<&'a [u8], O>>(f: F)
        -> (h: impl Fn(&'a [u8]) -> IResult<&'a [u8], O>)
        requires forall|i: &'a [u8]| f.requires((i,)),
        ensures
            forall|i: &'a [u8]| h.requires((i,)),
            forall|i: &'a [u8], r: IResult<&'a [u8], O>| #[trigger] h.ensures((i,), r) ==>
                exists|r1: IResult<&'a [u8], O>| #[trigger] f.ensures((i,), r1) && (r1 is Ok ==> r == r1)
                    && (r1 is Err ==> r is Err && !(r->Err_0 is Incomplete) && (r1->Err_0 is Failure <==> r->Err_0 is Failure)),
    { move |i| { unimplemented!() } }

    /// nom::multi::many0(f): apply f until it fails with a (recoverable) Error; a Failure is propagated;
    /// a success that consumes nothing is an Error (infinite-loop guard)
    #[verifier::external_body]
    pub fn many0<'a, O, F: Fn(&'a [u8]) -> IResult<&'a [u8], O>>(f: F)
        -> (h: impl Fn(&'a [u8]) -> IResult<&'a [u8], Vec<O>>)
        requires forall|i: &'a [u8]| f.requires((i,)),
        ensures
            forall|i: &'a [u8]| h.requires((i,)),
            forall|i: &'a [u8], r: IResult<&'a [u8], Vec<O>>| #[trigger] h.ensures((i,), r) ==> (
                (r is Ok ==> exists|ins: Seq<&'a [u8]>, k: int, e: nom::Err<nom::error::Error<&'a [u8]>>|
                                0 <= k && #[trigger] count_ok(f, k, ins, r->Ok_0.1@) && ins[0] == i && ins[k] == r->Ok_0.0
                                && #[trigger] f.ensures((ins[k],), Err(e)) && e is Error
                                && forall|j: int| 0 <= j < k ==> (#[trigger] ins[j + 1])@.len() != ins[j]@.len())
                && (r is Err ==> exists|ins: Seq<&'a [u8]>, vals: Seq<O>, k: int|
                                0 <= k && #[trigger] count_ok(f, k, ins, vals) && ins[0] == i
                                && ((exists|e: nom::Err<nom::error::Error<&'a [u8]>>| #[trigger] f.ensures((ins[k],), Err(e)) && !(e is Error))
                                    || (exists|nx: &'a [u8], v: O| #[trigger] f.ensures((ins[k],), Ok((nx, v))) && nx@.len() == ins[k]@.len())))),
    { move |i| { unimplemented!() } }
}
pub mod nom_paths {
    // so that `nom::multi::count`, `nom::combinator::map` in expanded code resolve
}

} // verus!
// ---- R1 wrappers: uN::to_be_bytes / Ipv4Addr::octets (bodies ARE the std calls) -----------
verus! {
pub trait VfBe8: Sized { spec fn vf_enc(self) -> Seq<u8>; fn vf_to_be_bytes(self) -> (r: [u8; 1]) ensures r@ == self.vf_enc(); }
pub trait VfBe16: Sized { spec fn vf_enc(self) -> Seq<u8>; fn vf_to_be_bytes(self) -> (r: [u8; 2]) ensures r@ == self.vf_enc(); }
pub trait VfBe32: Sized { spec fn vf_enc(self) -> Seq<u8>; fn vf_to_be_bytes(self) -> (r: [u8; 4]) ensures r@ == self.vf_enc(); }
pub trait VfOctets: Sized { spec fn vf_oct(self) -> Seq<u8>; fn vf_octets(&self) -> (r: [u8; 4]) ensures r@ == self.vf_oct(); }
impl VfBe8 for u8 {
    open spec fn vf_enc(self) -> Seq<u8> { seq![self] }
    #[verifier::external_body] fn vf_to_be_bytes(self) -> (r: [u8; 1]) { self.to_be_bytes() }
}
impl VfBe16 for u16 {
    open spec fn vf_enc(self) -> Seq<u8> { enc16(self) }
    #[verifier::external_body] fn vf_to_be_bytes(self) -> (r: [u8; 2]) { self.to_be_bytes() }
}
impl VfBe32 for u32 {
    open spec fn vf_enc(self) -> Seq<u8> { enc32(self) }
    #[verifier::external_body] fn vf_to_be_bytes(self) -> (r: [u8; 4]) { self.to_be_bytes() }
}
impl VfOctets for Ipv4Addr {
    open spec fn vf_oct(self) -> Seq<u8> { ipv4_octets(self) }
    #[verifier::external_body] fn vf_octets(&self) -> (r: [u8; 4]) { self.octets() }
}
} // verus!
