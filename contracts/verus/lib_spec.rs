// ---------------------------------------------------------------------------
// lib_spec.rs -- specification vocabulary for src/lib.rs (shared by the units that
// prove it and the units/lemmas that use it).  Spec-only: no executable code.
//
// The semantic functions of the four version parsers are *uninterpreted*: the lib-level
// theorems hold for any deterministic sub-parsers that satisfy `sub_wf` (which the wrapper
// units prove from the nom-level contracts).
// ---------------------------------------------------------------------------
verus! {

/// view of an error kind (the Display string of the nom error is not modelled)
pub enum EView {
    Incomplete,
    Partial { version: u16, remaining: Seq<u8> },
    Unallowed(u16),
    Unknown(Seq<u8>),
}
/// view of one element of the list returned by parse_bytes
pub enum PView {
    Pkt(NetflowPacket),
    Err { kind: EView, remaining: Seq<u8> },
}
/// result of one version-specific parser: decoded packet + unconsumed bytes, or an error
pub enum SubRes {
    Ok { pkt: NetflowPacket, rem: Seq<u8> },
    Err(EView),
}
/// the per-parser template state (both caches), as opaque values
pub struct PState { pub v9: V9Parser, pub ipfix: IPFixParser }

pub open spec fn eview(e: NetflowParseError) -> EView {
    match e {
        NetflowParseError::Incomplete(_) => EView::Incomplete,
        NetflowParseError::Partial(p) => EView::Partial { version: p.version, remaining: p.remaining@ },
        NetflowParseError::UnallowedVersion(v) => EView::Unallowed(v),
        NetflowParseError::UnknownVersion(b) => EView::Unknown(b@),
    }
}
pub open spec fn pview(p: NetflowPacket) -> PView {
    match p {
        NetflowPacket::Error(e) => PView::Err { kind: eview(e.error), remaining: e.remaining@ },
        _ => PView::Pkt(p),
    }
}
pub open spec fn pviews(s: Seq<NetflowPacket>) -> Seq<PView> { s.map_values(|p: NetflowPacket| pview(p)) }

pub open spec fn to_subres(r: Result<ParsedNetflow, NetflowParseError>) -> SubRes {
    match r {
        Ok(p) => SubRes::Ok { pkt: p.result, rem: p.remaining@ },
        Err(e) => SubRes::Err(eview(e)),
    }
}
pub open spec fn eview_eq(a: EView, b: EView) -> bool {
    match (a, b) {
        (EView::Incomplete, EView::Incomplete) => true,
        (EView::Partial { version: v1, remaining: r1 }, EView::Partial { version: v2, remaining: r2 }) => v1 == v2 && r1 =~= r2,
        (EView::Unallowed(v1), EView::Unallowed(v2)) => v1 == v2,
        (EView::Unknown(b1), EView::Unknown(b2)) => b1 =~= b2,
        _ => false,
    }
}
/// structural equality of SubRes (extensional on the byte sequences); implies ==
pub open spec fn subres_eq(a: SubRes, b: SubRes) -> bool {
    match (a, b) {
        (SubRes::Ok { pkt: p1, rem: r1 }, SubRes::Ok { pkt: p2, rem: r2 }) => p1 == p2 && r1 =~= r2,
        (SubRes::Err(e1), SubRes::Err(e2)) => eview_eq(e1, e2),
        _ => false,
    }
}
pub open spec fn pview_eq(a: PView, b: PView) -> bool {
    match (a, b) {
        (PView::Pkt(p1), PView::Pkt(p2)) => p1 == p2,
        (PView::Err { kind: k1, remaining: r1 }, PView::Err { kind: k2, remaining: r2 }) => eview_eq(k1, k2) && r1 =~= r2,
        _ => false,
    }
}
pub open spec fn pviews_eq(a: Seq<PView>, b: Seq<PView>) -> bool {
    a.len() == b.len() && forall|i: int| 0 <= i < a.len() ==> pview_eq(#[trigger] a[i], b[i])
}
pub proof fn lemma_pviews_eq(a: Seq<PView>, b: Seq<PView>) requires pviews_eq(a, b) ensures a == b {
    assert forall|i: int| 0 <= i < a.len() implies a[i] == b[i] by { assert(pview_eq(a[i], b[i])); }
    assert(a =~= b);
}
pub broadcast proof fn lemma_subres_eq(a: SubRes, b: SubRes) requires #[trigger] subres_eq(a, b) ensures a == b {}
pub open spec fn state_of(p: NetflowParser) -> PState { PState { v9: p.v9_parser, ipfix: p.ipfix_parser } }

// Semantic functions of the four nom-level packet parsers (input: bytes after the 2-byte version
// field): Some((packet, unconsumed rest)) or None on any nom error.  Uninterpreted here: each stands
// for the function that the parser *is* (determinism, DESIGN.md §3.2-5); for V5/V7 the units
// V.v5.parse / V.v7.parse prove the real parser equal to a concrete such function.
pub uninterp spec fn v5_nom(b: Seq<u8>) -> Option<(V5, Seq<u8>)>;
pub uninterp spec fn v7_nom(b: Seq<u8>) -> Option<(V7, Seq<u8>)>;
pub uninterp spec fn v9_nom(st: V9Parser, b: Seq<u8>) -> (Option<(V9, Seq<u8>)>, V9Parser);
pub uninterp spec fn ipfix_nom(st: IPFixParser, b: Seq<u8>) -> (Option<(IPFix, Seq<u8>)>, IPFixParser);

pub open spec fn nom_view<T>(r: IResult<&[u8], T>) -> Option<(T, Seq<u8>)> {
    match r { Ok((rest, v)) => Some((v, rest@)), Err(_) => None }
}

// the four `*Parser::parse` wrappers, as the property statements describe them: a decoded packet of
// that version with the unconsumed rest, or a Partial error carrying the version and the input.
pub open spec fn v5_fn(b: Seq<u8>) -> SubRes {
    match v5_nom(b) {
        Some((p, rest)) => SubRes::Ok { pkt: NetflowPacket::V5(p), rem: rest },
        None => SubRes::Err(EView::Partial { version: 5, remaining: b }),
    }
}
pub open spec fn v7_fn(b: Seq<u8>) -> SubRes {
    match v7_nom(b) {
        Some((p, rest)) => SubRes::Ok { pkt: NetflowPacket::V7(p), rem: rest },
        None => SubRes::Err(EView::Partial { version: 7, remaining: b }),
    }
}
pub open spec fn v9_fn(st: V9Parser, b: Seq<u8>) -> (SubRes, V9Parser) {
    match v9_nom(st, b).0 {
        Some((p, rest)) => (SubRes::Ok { pkt: NetflowPacket::V9(p), rem: rest }, v9_nom(st, b).1),
        None => (SubRes::Err(EView::Partial { version: 9, remaining: b }), v9_nom(st, b).1),
    }
}
pub open spec fn ipfix_fn(st: IPFixParser, b: Seq<u8>) -> (SubRes, IPFixParser) {
    match ipfix_nom(st, b).0 {
        Some((p, rest)) => (SubRes::Ok { pkt: NetflowPacket::IPFix(p), rem: rest }, ipfix_nom(st, b).1),
        None => (SubRes::Err(EView::Partial { version: 10, remaining: b }), ipfix_nom(st, b).1),
    }
}

/// what lib.rs relies on from a sub-parser: on success the packet is of the right variant and
/// the remainder is a suffix of the input; on failure the error is Partial{version, input}.
pub open spec fn sub_wf(b: Seq<u8>, r: SubRes, ver: u16) -> bool {
    match r {
        SubRes::Ok { pkt, rem } => is_suffix(rem, b) && match ver {
            5 => pkt is V5, 7 => pkt is V7, 9 => pkt is V9, 10 => pkt is IPFix, _ => false },
        SubRes::Err(e) => e == (EView::Partial { version: ver, remaining: b }),
    }
}

/// C12/C06: one packet step.  `allowed` is consulted once, before dispatch, and nowhere else.
pub open spec fn pp_spec(st: PState, allowed: Set<u16>, b: Seq<u8>) -> (SubRes, PState) {
    if b.len() < 2 {
        (SubRes::Err(EView::Incomplete), st)
    } else {
        let ver = be16(b, 0);
        let rest = b.subrange(2, b.len() as int);
        if !allowed.contains(ver) {
            (SubRes::Err(EView::Unallowed(ver)), st)
        } else if ver == 5 {
            (v5_fn(rest), st)
        } else if ver == 7 {
            (v7_fn(rest), st)
        } else if ver == 9 {
            let (r, v9) = v9_fn(st.v9, rest);
            (r, PState { v9: v9, ipfix: st.ipfix })
        } else if ver == 10 {
            let (r, ipfix) = ipfix_fn(st.ipfix, rest);
            (r, PState { v9: st.v9, ipfix: ipfix })
        } else {
            (SubRes::Err(EView::Unknown(rest)), st)
        }
    }
}

/// C02/C11: the whole buffer.  Packets left to right; an error element is last and carries the
/// unconsumed suffix; a disallowed version stops silently; empty input gives the empty list.
pub open spec fn spec_pb(st: PState, allowed: Set<u16>, b: Seq<u8>) -> (Seq<PView>, PState)
    decreases b.len()
{
    if b.len() == 0 {
        (Seq::<PView>::empty(), st)
    } else {
        let (r, st1) = pp_spec(st, allowed, b);
        match r {
            SubRes::Ok { pkt, rem } =>
                if rem.len() == 0 {
                    (seq![pview(pkt)], st1)
                } else if rem.len() < b.len() {
                    let (o, st2) = spec_pb(st1, allowed, rem);
                    (seq![pview(pkt)] + o, st2)
                } else {
                    (seq![pview(pkt)], st1)   // unreachable for well-formed sub-parsers
                },
            SubRes::Err(EView::Unallowed(_)) => (Seq::<PView>::empty(), st1),
            SubRes::Err(e) => (seq![PView::Err { kind: e, remaining: b }], st1),
        }
    }
}

} // verus!
