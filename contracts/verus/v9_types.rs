// V9 data types for the FlowSetBody / template units; payload types never inspected are opaque.
verus! {
#[verifier::external_body] pub struct V9Field { _p: () }
#[verifier::external_body] pub struct ScopeFieldType { _p: () }
#[verifier::external_body] pub struct FieldValue { _p: () }
#[verifier::external_body] pub struct OptionsData { _p: () }
//@ alias src/variable_versions/v9.rs - TemplateId
//@ alias src/variable_versions/v9.rs - V9FieldPair
//@ type src/variable_versions/v9.rs - V9Parser
//@ type src/variable_versions/v9.rs - FlowSetBody
//@ type src/variable_versions/v9.rs - Templates
//@ type src/variable_versions/v9.rs - OptionsTemplates
//@ type src/variable_versions/v9.rs - Template
//@ type src/variable_versions/v9.rs - OptionsTemplate
//@ type src/variable_versions/v9.rs - TemplateField
//@ type src/variable_versions/v9.rs - OptionsTemplateScopeField
//@ type src/variable_versions/v9.rs - Data
//@ const src/variable_versions/v9.rs - TEMPLATE_ID
//@ const src/variable_versions/v9.rs - OPTIONS_TEMPLATE_ID
impl Clone for Template { #[verifier::external_body] fn clone(&self) -> (r: Self) ensures r == *self { unimplemented!() } }
impl Clone for OptionsTemplate { #[verifier::external_body] fn clone(&self) -> (r: Self) ensures r == *self { unimplemented!() } }
impl Default for Template { #[verifier::external_body] fn default() -> (r: Self) ensures r.fields@.len() == 0 { unimplemented!() } }
}
