// UNIT lib.theorems -- property-level theorems over the specification functions that
// V.lib.ppbv / V.lib.parse_bytes prove the real code equal to.  Spec-only.
//@ include prelude.rs
//@ include lib_types.rs
//@ include lib_spec.rs
verus! {

/// every sub-parser satisfies sub_wf on every input (proved per wrapper unit)
pub open spec fn subs_wf() -> bool {
    &&& forall|b: Seq<u8>| sub_wf(b, #[trigger] v5_fn(b), 5)
    &&& forall|b: Seq<u8>| sub_wf(b, #[trigger] v7_fn(b), 7)
    &&& forall|st: V9Parser, b: Seq<u8>| sub_wf(b, (#[trigger] v9_fn(st, b)).0, 9)
    &&& forall|st: IPFixParser, b: Seq<u8>| sub_wf(b, (#[trigger] ipfix_fn(st, b)).0, 10)
}

pub proof fn lemma_pp_ok_shape(st: PState, allowed: Set<u16>, b: Seq<u8>)
    requires subs_wf(),
    ensures
        pp_spec(st, allowed, b).0 is Ok ==> {
            let rem = pp_spec(st, allowed, b).0->rem;
            &&& b.len() >= 2
            &&& rem.len() + 2 <= b.len()
            &&& rem == b.subrange(b.len() - rem.len(), b.len() as int)
            &&& !(pp_spec(st, allowed, b).0->pkt is Error)
            &&& allowed.contains(be16(b, 0))
        },
        pp_spec(st, allowed, b).0 matches SubRes::Err(EView::Unallowed(v)) ==> b.len() >= 2 && v == be16(b, 0) && !allowed.contains(v)
            && pp_spec(st, allowed, b).1 == st,
        pp_spec(st, allowed, b).0 matches SubRes::Err(EView::Unknown(u)) ==> b.len() >= 2 && allowed.contains(be16(b, 0))
            && u == b.subrange(2, b.len() as int) && pp_spec(st, allowed, b).1 == st
            && be16(b, 0) != 5 && be16(b, 0) != 7 && be16(b, 0) != 9 && be16(b, 0) != 10,
{
    if b.len() >= 2 {
        let ver = be16(b, 0);
        let rest = b.subrange(2, b.len() as int);
        if allowed.contains(ver) {
            assert(sub_wf(rest, v5_fn(rest), 5));
            assert(sub_wf(rest, v7_fn(rest), 7));
            assert(sub_wf(rest, v9_fn(st.v9, rest).0, 9));
            assert(sub_wf(rest, ipfix_fn(st.ipfix, rest).0, 10));
            let r = pp_spec(st, allowed, b).0;
            if r is Ok {
                let rem = r->rem;
                assert(is_suffix(rem, rest));
                assert(rem =~= b.subrange(b.len() - rem.len(), b.len() as int));
            }
        }
    }
}

// ---------------------------------------------------------------------------------
// C02: decomposition
/// bytes consumed by the packets reported (sum of the wire lengths of the Ok steps)
pub open spec fn pb_consumed(st: PState, allowed: Set<u16>, b: Seq<u8>) -> nat
    decreases b.len()
{
    if b.len() == 0 { 0 } else {
        let (r, st1) = pp_spec(st, allowed, b);
        match r {
            SubRes::Ok { pkt, rem } =>
                if rem.len() == 0 { b.len() }
                else if rem.len() < b.len() { ((b.len() - rem.len()) + pb_consumed(st1, allowed, rem)) as nat }
                else { 0 },
            SubRes::Err(_) => 0,
        }
    }
}

pub proof fn thm_c02_decomposition(st: PState, allowed: Set<u16>, b: Seq<u8>)
    requires subs_wf(),
    ensures ({
        let out = spec_pb(st, allowed, b).0;
        let c = pb_consumed(st, allowed, b);
        &&& c <= b.len()
        &&& (b.len() == 0 ==> out.len() == 0)
        &&& (forall|i: int| 0 <= i < out.len() - 1 ==> #[trigger] out[i] is Pkt)
        &&& (forall|i: int| 0 <= i < out.len() ==> (#[trigger] out[i] matches PView::Pkt(p) ==> !(p is Error)))
        &&& (out.len() > 0 && out.last() is Err ==> out.last()->remaining == b.subrange(c as int, b.len() as int))
        &&& ((out.len() == 0 || out.last() is Pkt) && c < b.len() ==> c + 2 <= b.len() && !allowed.contains(be16(b, c as int)))
    }),
    decreases b.len(),
{
    if b.len() == 0 {
    } else {
        lemma_pp_ok_shape(st, allowed, b);
        let (r, st1) = pp_spec(st, allowed, b);
        match r {
            SubRes::Ok { pkt, rem } => {
                if rem.len() == 0 {
                    assert(spec_pb(st, allowed, b).0 =~= seq![pview(pkt)]);
                } else {
                    thm_c02_decomposition(st1, allowed, rem);
                    let o = spec_pb(st1, allowed, rem).0;
                    let out = spec_pb(st, allowed, b).0;
                    let c1 = pb_consumed(st1, allowed, rem);
                    let k = b.len() - rem.len();
                    assert(out =~= seq![pview(pkt)] + o);
                    assert(rem.subrange(c1 as int, rem.len() as int) =~= b.subrange(k + c1, b.len() as int));
                    if c1 < rem.len() && c1 + 2 <= rem.len() {
                        assert(rem[c1 as int] == b[k + c1]);
                        assert(rem[c1 as int + 1] == b[k + c1 + 1]);
                    }
                    assert forall|i: int| 0 <= i < out.len() - 1 implies #[trigger] out[i] is Pkt by {
                        if i > 0 { assert(out[i] == o[i - 1]); }
                    }
                    assert forall|i: int| 0 <= i < out.len() implies (#[trigger] out[i] matches PView::Pkt(p) ==> !(p is Error)) by {
                        if i > 0 { assert(out[i] == o[i - 1]); }
                    }
                    if o.len() > 0 { assert(out.last() == o.last()); }
                }
            },
            SubRes::Err(e) => {
                match e {
                    EView::Unallowed(_) => {},
                    _ => { assert(b.subrange(0, b.len() as int) =~= b); },
                }
            },
        }
    }
}

// ---------------------------------------------------------------------------------
// C06/C14: which packets can change which cache (scoping to protocol; fixed-format and disallowed packets change nothing)
pub proof fn thm_c06_scoping(st: PState, allowed: Set<u16>, b: Seq<u8>)
    ensures ({
        let st1 = pp_spec(st, allowed, b).1;
        &&& (b.len() < 2 ==> st1 == st)
        &&& (b.len() >= 2 && !allowed.contains(be16(b, 0)) ==> st1 == st)            // disallowed version
        &&& (b.len() >= 2 && be16(b, 0) != 9 && be16(b, 0) != 10 ==> st1 == st)      // V5, V7, unknown versions
        &&& (b.len() >= 2 && be16(b, 0) == 9 ==> st1.ipfix == st.ipfix)              // V9 input never reaches the IPFIX cache
        &&& (b.len() >= 2 && be16(b, 0) == 10 ==> st1.v9 == st.v9)                   // IPFIX input never reaches the V9 cache
    }),
{
}

// ---------------------------------------------------------------------------------
// C12: allowed_versions filters by version and nothing else
/// the run of a parser that allows every version, cut before the first packet whose version is not in S
pub open spec fn spec_pb_cut(st: PState, s: Set<u16>, full: Set<u16>, b: Seq<u8>) -> (Seq<PView>, PState)
    decreases b.len()
{
    if b.len() == 0 {
        (Seq::<PView>::empty(), st)
    } else if b.len() >= 2 && !s.contains(be16(b, 0)) {
        (Seq::<PView>::empty(), st)          // neither reported nor allowed to change the caches
    } else {
        let (r, st1) = pp_spec(st, full, b);
        match r {
            SubRes::Ok { pkt, rem } =>
                if rem.len() == 0 { (seq![pview(pkt)], st1) }
                else if rem.len() < b.len() { let (o, st2) = spec_pb_cut(st1, s, full, rem); (seq![pview(pkt)] + o, st2) }
                else { (seq![pview(pkt)], st1) },
            SubRes::Err(EView::Unallowed(_)) => (Seq::<PView>::empty(), st1),
            SubRes::Err(e) => (seq![PView::Err { kind: e, remaining: b }], st1),
        }
    }
}

pub proof fn thm_c12_filter(st: PState, s: Set<u16>, full: Set<u16>, b: Seq<u8>)
    requires forall|v: u16| full.contains(v),   // `full` is a parser that allows every version
    ensures
        spec_pb(st, s, b) == spec_pb_cut(st, s, full, b),
        spec_pb_cut(st, s, full, b).0.is_prefix_of(spec_pb(st, full, b).0),
    decreases b.len(),
{
    if b.len() == 0 {
    } else if b.len() >= 2 && !s.contains(be16(b, 0)) {
    } else {
        assert(pp_spec(st, s, b) == pp_spec(st, full, b));
        let (r, st1) = pp_spec(st, full, b);
        match r {
            SubRes::Ok { pkt, rem } => {
                if rem.len() != 0 && rem.len() < b.len() {
                    thm_c12_filter(st1, s, full, rem);
                    let o = spec_pb_cut(st1, s, full, rem).0;
                    let f = spec_pb(st1, full, rem).0;
                    assert((seq![pview(pkt)] + o).is_prefix_of(seq![pview(pkt)] + f)) by {
                        assert(o =~= f.subrange(0, o.len() as int));
                        assert((seq![pview(pkt)] + o) =~= (seq![pview(pkt)] + f).subrange(0, 1 + o.len() as int));
                    }
                }
            },
            SubRes::Err(e) => {},
        }
    }
}

/// a version that is allowed but not one of 5, 7, 9, 10 is an unknown-version error carrying the unparsed bytes
pub proof fn thm_c12_unknown(st: PState, s: Set<u16>, b: Seq<u8>)
    requires b.len() >= 2, s.contains(be16(b, 0)), be16(b, 0) != 5, be16(b, 0) != 7, be16(b, 0) != 9, be16(b, 0) != 10,
    ensures spec_pb(st, s, b) == (seq![PView::Err { kind: EView::Unknown(b.subrange(2, b.len() as int)), remaining: b }], st),
{
}

// ---------------------------------------------------------------------------------
// C11: chained == one per call, for every partition at packet boundaries
/// x is one self-delimiting packet for state st: alone it parses with nothing left, and followed by
/// any y it parses to the same packet and state with exactly y left (locality of the sub-parser)
pub open spec fn is_local_packet(st: PState, s: Set<u16>, x: Seq<u8>) -> bool {
    &&& x.len() > 0
    &&& pp_spec(st, s, x).0 matches SubRes::Ok { pkt, rem }
    &&& rem.len() == 0
    &&& forall|y: Seq<u8>| #[trigger] pp_spec(st, s, x + y) == (SubRes::Ok { pkt: pkt, rem: y }, pp_spec(st, s, x).1)
}
pub open spec fn flatten(xs: Seq<Seq<u8>>) -> Seq<u8> decreases xs.len() {
    if xs.len() == 0 { Seq::<u8>::empty() } else { xs[0] + flatten(xs.drop_first()) }
}
pub open spec fn all_local(st: PState, s: Set<u16>, xs: Seq<Seq<u8>>) -> bool decreases xs.len() {
    xs.len() == 0 || (is_local_packet(st, s, xs[0]) && all_local(pp_spec(st, s, xs[0]).1, s, xs.drop_first()))
}
/// one parse_bytes call per element
pub open spec fn run_each(st: PState, s: Set<u16>, bufs: Seq<Seq<u8>>) -> (Seq<PView>, PState) decreases bufs.len() {
    if bufs.len() == 0 { (Seq::<PView>::empty(), st) } else {
        let (o1, st1) = spec_pb(st, s, bufs[0]);
        let (o2, st2) = run_each(st1, s, bufs.drop_first());
        (o1 + o2, st2)
    }
}

pub proof fn lemma_flatten_len_pos(xs: Seq<Seq<u8>>)
    requires xs.len() > 0, xs[0].len() > 0 ensures flatten(xs).len() > 0
{}

pub proof fn thm_c11_chain(st: PState, s: Set<u16>, xs: Seq<Seq<u8>>)
    requires all_local(st, s, xs),
    ensures spec_pb(st, s, flatten(xs)) == run_each(st, s, xs),
    decreases xs.len(),
{
    if xs.len() == 0 {
    } else {
        let x = xs[0];
        let tl = xs.drop_first();
        let y = flatten(tl);
        let st1 = pp_spec(st, s, x).1;
        let pkt = pp_spec(st, s, x).0->pkt;
        thm_c11_chain(st1, s, tl);
        assert(pp_spec(st, s, x + y) == (SubRes::Ok { pkt: pkt, rem: y }, st1));
        assert(spec_pb(st, s, x) == (seq![pview(pkt)], st1));
        if y.len() == 0 {
            assert(spec_pb(st, s, x + y).0 =~= seq![pview(pkt)]);
            // all remaining packets are non-empty, so tl is empty
            if tl.len() > 0 { assert(all_local(st1, s, tl)); assert(is_local_packet(st1, s, tl[0])); lemma_flatten_len_pos(tl); }
            assert(run_each(st1, s, tl).0 =~= Seq::<PView>::empty());
            assert(spec_pb(st, s, x).0 + run_each(st1, s, tl).0 =~= seq![pview(pkt)]);
        } else {
            assert((x + y).len() > y.len());
        }
    }
}

pub open spec fn flatten2(parts: Seq<Seq<Seq<u8>>>) -> Seq<Seq<u8>> decreases parts.len() {
    if parts.len() == 0 { Seq::<Seq<u8>>::empty() } else { parts[0] + flatten2(parts.drop_first()) }
}
pub open spec fn state_after(st: PState, s: Set<u16>, xs: Seq<Seq<u8>>) -> PState decreases xs.len() {
    if xs.len() == 0 { st } else { state_after(pp_spec(st, s, xs[0]).1, s, xs.drop_first()) }
}
pub proof fn lemma_all_local_split(st: PState, s: Set<u16>, a: Seq<Seq<u8>>, b: Seq<Seq<u8>>)
    requires all_local(st, s, a + b),
    ensures all_local(st, s, a), all_local(state_after(st, s, a), s, b),
            run_each(st, s, a + b).0 == run_each(st, s, a).0 + run_each(state_after(st, s, a), s, b).0,
            run_each(st, s, a + b).1 == run_each(state_after(st, s, a), s, b).1,
            run_each(st, s, a).1 == state_after(st, s, a),
    decreases a.len(),
{
    if a.len() == 0 {
        assert(a + b =~= b);
        assert(run_each(st, s, a).0 + run_each(st, s, b).0 =~= run_each(st, s, b).0);
    } else {
        assert((a + b)[0] == a[0]);
        assert((a + b).drop_first() =~= a.drop_first() + b);
        let st1 = pp_spec(st, s, a[0]).1;
        lemma_all_local_split(st1, s, a.drop_first(), b);
        assert(spec_pb(st, s, a[0]).1 == st1);
        let o1 = spec_pb(st, s, a[0]).0;
        assert(o1 + (run_each(st1, s, a.drop_first()).0 + run_each(state_after(st, s, a), s, b).0)
               =~= (o1 + run_each(st1, s, a.drop_first()).0) + run_each(state_after(st, s, a), s, b).0);
    }
}

/// every partition of the packet sequence into consecutive calls gives the same elements and final state
pub proof fn thm_c11_partition(st: PState, s: Set<u16>, parts: Seq<Seq<Seq<u8>>>)
    requires all_local(st, s, flatten2(parts)),
    ensures run_each(st, s, parts.map_values(|g: Seq<Seq<u8>>| flatten(g))) == run_each(st, s, flatten2(parts)),
            run_each(st, s, flatten2(parts)) == spec_pb(st, s, flatten(flatten2(parts))),
    decreases parts.len(),
{
    let bufs = parts.map_values(|g: Seq<Seq<u8>>| flatten(g));
    thm_c11_chain(st, s, flatten2(parts));
    if parts.len() == 0 {
    } else {
        let g = parts[0];
        let rest = parts.drop_first();
        lemma_all_local_split(st, s, g, flatten2(rest));
        let st1 = state_after(st, s, g);
        thm_c11_chain(st, s, g);
        thm_c11_partition(st1, s, rest);
        assert(bufs[0] == flatten(g));
        assert(bufs.drop_first() =~= rest.map_values(|g: Seq<Seq<u8>>| flatten(g)));
        assert(flatten2(parts) == g + flatten2(rest));
    }
}

} // verus!
fn main() {}
