// UNIT ipfix.is_valid -- the provided methods of trait ipfix::CommonTemplate, verbatim from
// src/variable_versions/ipfix.rs:287-299 (`iter().any(..)` replaced by its definition, R25).
// C06/C01: a template (or options template) is accepted into the cache iff some field has a non-zero length.
//@ include prelude.rs
verus! {
#[verifier::external_body] pub struct IPFixField { _p: () }
//@ type src/variable_versions/ipfix.rs - TemplateField
}
//@ include ipfix_valid_spec.rs
verus! {
pub trait CommonTemplate {
    spec fn fields_spec(&self) -> Seq<TemplateField>;
    fn get_fields(&self) -> (r: &Vec<TemplateField>) ensures r@ == self.fields_spec();
//@ fn src/variable_versions/ipfix.rs - /trait CommonTemplate/ get_field_count
//@   result: r
//@   ensures: r == self.fields_spec().len()
//@ end
//@ fn src/variable_versions/ipfix.rs - /trait CommonTemplate/ is_valid
//@   result: r
//@   prerules: R25
//@   ensures: r == fields_valid(self.fields_spec())
//@   loop 0: invariant_except_break __a <= __an.len(), __an@ == self.fields_spec(), !__found,
//@           forall|j: int| 0 <= j < __a ==> !((#[trigger] __an@[j]).field_length > 0),
//@       ensures __found == fields_valid(self.fields_spec())
//@       decreases __an.len() - __a
//@ end
}
} // verus!
fn main() {}
