// UNIT v9.wrapper -- V9Parser::parse, verbatim from src/variable_versions/v9.rs
//@ include prelude.rs
//@ include lib_types.rs
//@ include lib_spec.rs
verus! {
impl ParsedNetflow {
//@ stub stubs/parsed_netflow_new.rs
}
impl V9 {
//@ stub stubs/v9_parse.rs
}
impl V9Parser {
//@ fn src/variable_versions/v9.rs - /impl V9Parser/ parse
//@   contract: stubs/v9parser_parse.rs
//@   prerules: R30
//@   bodystart: broadcast use lemma_cloned_u8;
//@ end
}
} // verus!
fn main() {}
