// UNIT v9.wrapper -- V9Parser::parse, verbatim from src/variable_versions/v9.rs
//@ include prelude.rs
//@ include lib_types.rs
//@ include lib_spec.rs
verus! {
impl ParsedNetflow {
//@ stub stubs/parsed_netflow_new.rs
}
impl V9 {
//@ stub stubs/v9_parse.rs
}
impl V9Parser {
//@ fn src/variable_versions/v9.rs - /impl V9Parser/ parse
//@   contract: stubs/v9parser_parse.rs
//@   closure 0: p | -> (o: ParsedNetflow) ensures o.remaining@ == p.0@, o.result == NetflowPacket::V9(p.1)
//@   closure 1: - | -> (o: NetflowParseError) ensures o matches NetflowParseError::Partial(pp) && pp.version == 9 && pp.remaining@ =~= packet@
//@   before "V9::parse(packet, self)": broadcast use lemma_cloned_u8;
//@ end
}
} // verus!
fn main() {}
