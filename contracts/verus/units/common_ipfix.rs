// UNIT common.ipfix -- impl From<&IPFix> for NetflowCommon, verbatim from src/netflow_common.rs:178-236 (Option
// combinators replaced by their definitions, R22; `.try_into()` through the R21 wrapper; the BTreeMap re-keying statement
// `values().cloned().collect()` replaced by the loop that defines it, R31).  C13: version and timestamp (export time) are the header's; one common flow per ELEMENT of
// Data::fields, in set order then element order (nothing for template / options sets); each flow's fields are the
// conversions of that element's values under the IPFIX information elements the property names.
// KNOWN FINDING (known_findings.txt, findings/c13_ipfix_common_per_field.rs): the IPFIX decoder reports every FIELD of a
// record as its own single-entry element of Data::fields (V.ipfix.records: flat_maps), so "one flow per element" is one
// flow per field, not per record, whenever a template has more than one field; the postcondition below is the
// property's statement for data sets whose records have exactly one field.
//@ include prelude.rs
verus! {
use std::collections::btree_map::Iter;
use vstd::std_specs::iter::IteratorSpec;
use vstd::std_specs::btree::*;
#[verifier::external_body] pub struct FieldValue { _p: () }
impl Clone for FieldValue { #[verifier::external_body] fn clone(&self) -> (r: Self) ensures r == *self { unimplemented!() } }
#[verifier::external_body] pub struct ProtocolTypes { _p: () }
#[verifier::external_body] pub struct Template { _p: () }
#[verifier::external_body] pub struct OptionsTemplate { _p: () }
#[verifier::external_body] pub struct OptionsData { _p: () }
#[verifier::external_type_specification] #[verifier::external_body] pub struct ExIpAddr(std::net::IpAddr);
pub use std::net::IpAddr;
//@ type src/variable_versions/ipfix_lookup.rs - IPFixField ord
//@ alias src/variable_versions/ipfix.rs - IPFixFieldPair
//@ type src/variable_versions/ipfix.rs - IPFix
//@ type src/variable_versions/ipfix.rs - Header
//@ type src/variable_versions/ipfix.rs - FlowSet
//@ type src/variable_versions/ipfix.rs - FlowSetHeader
//@ type src/variable_versions/ipfix.rs - FlowSetBody
//@ type src/variable_versions/ipfix.rs - Data
//@ type src/netflow_common.rs - NetflowCommon
//@ type src/netflow_common.rs - NetflowCommonFlowSet
pub type IPFixFlowSetBody = FlowSetBody;

/// ASSUMED: derive(Ord) on the field-type enum is a total order consistent with == (what vstd's BTreeMap model needs)
pub axiom fn axiom_field_key_model()
    ensures key_obeys_cmp_spec::<IPFixField>();
/// the pairs of a record map in ITERATION order (std: ascending key order; vstd: an enumeration without order)
pub uninterp spec fn bt_seq<'a>(m: &'a BTreeMap<usize, IPFixFieldPair>) -> Seq<(&'a usize, &'a IPFixFieldPair)>;
// R27/R31 wrapper: `m.iter()` / `m.values()` on a record map (the body is the original call); ties the iterator to bt_seq
#[verifier::external_body]
pub fn vf_bt_iter<'a>(m: &'a BTreeMap<usize, IPFixFieldPair>) -> (it: Iter<'a, usize, IPFixFieldPair>)
    ensures it.remaining() == bt_seq(m), bt_seq(m).len() == m@.len(),
{ m.iter() }
/// the record re-keyed by field type: the first n (type, value) pairs of the record, in iteration order, inserted into an
/// empty map -- `data_field.values().cloned().collect::<BTreeMap<IPFixField, FieldValue>>()` (a later pair of the same type wins)
pub open spec fn rmap(df: &BTreeMap<usize, IPFixFieldPair>, n: int) -> Map<IPFixField, FieldValue>
    decreases n
{
    if n <= 0 { Map::<IPFixField, FieldValue>::empty() } else { rmap(df, n - 1).insert(bt_seq(df)[n - 1].1.0, bt_seq(df)[n - 1].1.1) }
}
pub open spec fn record_map(df: &BTreeMap<usize, IPFixFieldPair>) -> Map<IPFixField, FieldValue> { rmap(df, df@.len() as int) }
pub open spec fn vm_get(m: Map<IPFixField, FieldValue>, k: IPFixField) -> Option<FieldValue> { if m.contains_key(k) { Some(m[k]) } else { None } }

/// TryFrom<&FieldValue> for the five target types of the common view (leaf contracts: K.try.*)
pub uninterp spec fn conv_ip(v: FieldValue) -> Option<IpAddr>;
pub uninterp spec fn conv_u16(v: FieldValue) -> Option<u16>;
pub uninterp spec fn conv_u8(v: FieldValue) -> Option<u8>;
pub uninterp spec fn conv_u32(v: FieldValue) -> Option<u32>;
pub uninterp spec fn conv_string(v: FieldValue) -> Option<String>;
pub trait FvConv: Sized { spec fn conv(v: FieldValue) -> Option<Self>; }
impl FvConv for IpAddr { open spec fn conv(v: FieldValue) -> Option<Self> { conv_ip(v) } }
impl FvConv for u16 { open spec fn conv(v: FieldValue) -> Option<Self> { conv_u16(v) } }
impl FvConv for u8 { open spec fn conv(v: FieldValue) -> Option<Self> { conv_u8(v) } }
impl FvConv for u32 { open spec fn conv(v: FieldValue) -> Option<Self> { conv_u32(v) } }
impl FvConv for String { open spec fn conv(v: FieldValue) -> Option<Self> { conv_string(v) } }
pub struct VfConvErr;
// R21 wrapper: `v.try_into()` for v: &FieldValue  (the target type is inferred from the field it initialises)
#[verifier::external_body]
pub fn vf_try_into<T: FvConv>(v: &FieldValue) -> (r: Result<T, VfConvErr>)
    ensures match T::conv(*v) { Some(t) => r == Ok::<T, VfConvErr>(t), None => r is Err },
{ unimplemented!() }
pub uninterp spec fn proto_of(n: u8) -> ProtocolTypes;
impl ProtocolTypes {
    // From<u8> for ProtocolTypes (K.proto.table)
    #[verifier::external_body] pub fn from(n: u8) -> (r: ProtocolTypes) ensures r == proto_of(n) { unimplemented!() }
}

pub open spec fn or2(a: Option<FieldValue>, b: Option<FieldValue>) -> Option<FieldValue> { if a is Some { a } else { b } }
pub open spec fn opt_conv<T: FvConv>(a: Option<FieldValue>) -> Option<T> { match a { Some(v) => T::conv(v), None => None } }
/// the common flow of one record (C13: "equal the corresponding decoded fields of that record and are absent only when
/// the record has no such field")
pub open spec fn flow_of(m: Map<IPFixField, FieldValue>) -> NetflowCommonFlowSet {
    NetflowCommonFlowSet {
        src_addr: opt_conv::<IpAddr>(or2(vm_get(m, IPFixField::SourceIpv4address), vm_get(m, IPFixField::SourceIpv6address))),
        dst_addr: opt_conv::<IpAddr>(or2(vm_get(m, IPFixField::DestinationIpv4address), vm_get(m, IPFixField::DestinationIpv6address))),
        src_port: opt_conv::<u16>(vm_get(m, IPFixField::SourceTransportPort)),
        dst_port: opt_conv::<u16>(vm_get(m, IPFixField::DestinationTransportPort)),
        protocol_number: opt_conv::<u8>(vm_get(m, IPFixField::ProtocolIdentifier)),
        protocol_type: match opt_conv::<u8>(vm_get(m, IPFixField::ProtocolIdentifier)) { Some(n) => Some(proto_of(n)), None => None },
        first_seen: opt_conv::<u32>(vm_get(m, IPFixField::FlowStartSysUpTime)),
        last_seen: opt_conv::<u32>(vm_get(m, IPFixField::FlowEndSysUpTime)),
        src_mac: opt_conv::<String>(vm_get(m, IPFixField::SourceMacaddress)),
        dst_mac: opt_conv::<String>(vm_get(m, IPFixField::DestinationMacaddress)),
    }
}
/// one flow per record of a data flowset, in record order
pub open spec fn flows_of_records(recs: Seq<BTreeMap<usize, IPFixFieldPair>>, n: int) -> Seq<NetflowCommonFlowSet>
    decreases n
{
    if n <= 0 { Seq::<NetflowCommonFlowSet>::empty() } else { flows_of_records(recs, n - 1).push(flow_of(record_map(&recs[n - 1]))) }
}
/// the flows of the first n flowsets: data flowsets contribute their records, everything else nothing
pub open spec fn flows_of_sets(sets: Seq<FlowSet>, n: int) -> Seq<NetflowCommonFlowSet>
    decreases n
{
    if n <= 0 { Seq::<NetflowCommonFlowSet>::empty() } else {
        flows_of_sets(sets, n - 1) + (match sets[n - 1].body {
            FlowSetBody::Data(d) => flows_of_records(d.fields@, d.fields@.len() as int),
            _ => Seq::<NetflowCommonFlowSet>::empty(),
        })
    }
}

impl NetflowCommon {
//@ fn src/netflow_common.rs - /impl From<&IPFix> for NetflowCommon/ from
//@   result: r
//@   prerules: R31 R22
//@   rules: R21
//@   bodystart: proof { axiom_field_key_model(); }
//@   ensures: r.version == value.header.version, r.timestamp == value.header.export_time
//@   ensures: r.flowsets@ =~= flows_of_sets(value.flowsets@, value.flowsets@.len() as int)
//@   forloop 0: it0 | invariant flowsets@ =~= flows_of_sets(value.flowsets@, it0.index@)
//@   forloop 1: it1 | invariant flowsets@ =~= flows_of_sets(value.flowsets@, it0.index@) + flows_of_records(data.fields@, it1.index@)
//@   beforeloop 0: let ghost all = bt_seq(data_field); let ghost n = data_field@.len() as int; let ghost mut k: int = 0;
//@   loop 0: invariant_except_break 0 <= k <= n, __bi.remaining().len() + k == n, n == all.len(), all == bt_seq(data_field), n == data_field@.len(),
//@           forall|j: int| 0 <= j < __bi.remaining().len() ==> __bi.remaining()[j] == all[j + k],
//@           value_map@ =~= rmap(data_field, k),
//@       ensures k == n, value_map@ =~= rmap(data_field, k), n == data_field@.len(),
//@       decreases n - k
//@   loopstart 0: proof { axiom_field_key_model(); }
//@   loopend 0: proof { k = k + 1; }
//@   forstart 1: proof { axiom_field_key_model(); }
//@ end
}
} // verus!
fn main() {}
