// UNIT v9.export_records -- the data-record export loop of V9::to_be_bytes (src/variable_versions/v9.rs:587-591), the
// statement that V.v9.to_be_bytes replaces by the stub vf_export_records (R5), as a function of its own; the inner
// `for .. in map.iter()` is replaced by the definition of `for` over the iterator (R27).  C09: the values of every record
// are re-exported one after the other, record after record, in the maps' iteration order, each as FieldValue::to_be_bytes
// gives it; nothing is skipped, repeated or reordered; an encoding error fails the export.
//@ include prelude.rs
verus! {
use std::collections::btree_map::Iter;
use vstd::std_specs::iter::IteratorSpec;
#[verifier::external_body] pub struct V9Field { _p: () }
#[verifier::external_body] pub struct FieldValue { _p: () }
#[verifier::external_body] pub struct VfError { _p: () }
#[verifier::external_type_specification] #[verifier::external_body] pub struct ExIoError(std::io::Error);
impl From<std::io::Error> for VfError { #[verifier::external_body] fn from(e: std::io::Error) -> Self { unimplemented!() } }
//@ alias src/variable_versions/v9.rs - V9FieldPair
//@ type src/variable_versions/v9.rs - Data
pub type VfPair = V9FieldPair;
}
//@ include records_enc_spec.rs
verus! {
impl FieldValue {
    // K.rt.* / FieldValue::to_be_bytes
    #[verifier::external_body]
    pub fn to_be_bytes(&self) -> (r: Result<Vec<u8>, std::io::Error>)
        ensures match fv_enc(*self) { Some(b) => r is Ok && r->Ok_0@ == b, None => r is Err },
    { unimplemented!() }
}
// R27 wrapper: `m.iter()` on a record map (the body is the original call); ties the iterator to bt_seq
#[verifier::external_body]
pub fn vf_bt_iter<'a>(m: &'a BTreeMap<usize, VfPair>) -> (it: Iter<'a, usize, VfPair>)
    ensures it.remaining() == bt_seq(m), bt_seq(m).len() == m@.len(),
{ m.iter() }

//@ fn src/variable_versions/v9.rs - /impl V9/ to_be_bytes
//@   onlystmt "for data_field in data.fields.iter()": Ok(())
//@   sig: pub fn vf_export_records(result: &mut Vec<u8>, data: &Data) -> Result<(), VfError>
//@   contract: stubs/v9_export_records.rs
//@   prerules: R27
//@   btfor: 1
//@   forloop 0: it0 | invariant result@ =~= old(result)@ + recs_enc(data.fields@, it0.index@)
//@   beforeloop 0: let ghost all = bt_seq(data_field); let ghost n = data_field@.len() as int; let ghost mut k: int = 0; let ghost base = result@;
//@   loop 0: invariant_except_break 0 <= k <= n, __bi.remaining().len() + k == n, n == all.len(), all == bt_seq(data_field), n == data_field@.len(),
//@           forall|j: int| 0 <= j < __bi.remaining().len() ==> __bi.remaining()[j] == all[j + k],
//@           result@ =~= base + rec_enc(data_field, k), base =~= old(result)@ + recs_enc(data.fields@, it0.index@),
//@       ensures k == n, result@ =~= base + rec_enc(data_field, k), base =~= old(result)@ + recs_enc(data.fields@, it0.index@), n == data_field@.len(),
//@       decreases n - k
//@   loopend 0: proof { k = k + 1; }
//@ end
} // verus!
fn main() {}
