// UNIT lib.parsed_new -- ParsedNetflow::new, verbatim from src/lib.rs
//@ include prelude.rs
//@ include lib_types.rs
verus! {
impl ParsedNetflow {
//@ fn src/lib.rs - /impl ParsedNetflow/ new
//@   contract: stubs/parsed_netflow_new.rs
//@   before "Self {": broadcast use lemma_cloned_u8;
//@ end
}
} // verus!
fn main() {}
