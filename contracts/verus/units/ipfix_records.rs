// UNIT ipfix.records -- ipfix::FieldParser::parse, verbatim from src/variable_versions/ipfix.rs:319-351 (the
// `iter().enumerate().try_fold(..)?` replaced by its definition, R16).  C05: a data set is decoded into consecutive
// records; value c of a record is read from exactly where value c-1 ended, with field c of the template; every field of
// every record is reported once, in order, under its template position; a field that cannot be decoded fails the set;
// the bytes after the last record are returned as padding.  C01: the record loop terminates, no arithmetic overflow.
//@ include prelude.rs
verus! {
#[verifier::external_body] pub struct IPFixField { _p: () }
#[verifier::external_body] pub struct FieldValue { _p: () }
impl Clone for IPFixField { #[verifier::external_body] fn clone(&self) -> (r: Self) ensures r == *self { unimplemented!() } }
impl Copy for IPFixField {}
//@ alias src/variable_versions/ipfix.rs - IPFixFieldPair
//@ type src/variable_versions/ipfix.rs - TemplateField
}
//@ include ipfix_records_spec.rs
verus! {
pub trait CommonTemplate: Sized {
    spec fn fields_spec(&self) -> Seq<TemplateField>;
    fn get_fields(&self) -> (r: &Vec<TemplateField>) ensures r@ == self.fields_spec();
}
impl TemplateField {
    // V.ipfix.field_value proves the length clause; the first clause says only that the result is a function of
    // (field specifier, bytes)
    #[verifier::external_body]
    fn parse_as_field_value<'a>(&self, i: &'a [u8]) -> (r: IResult<&'a [u8], FieldValue>)
        ensures nom_view(r) == ifv(*self, i@), r is Ok ==> r->Ok_0.0@.len() <= i@.len(),
    { unimplemented!() }
}
// R2 wrapper: `v.extend(w)` for w: Vec<T>  (body is the original call)
#[verifier::external_body]
pub fn vf_extend<T>(v: &mut Vec<T>, w: Vec<T>)
    ensures final(v)@ == old(v)@ + w@,
{ v.extend(w) }

pub open spec fn opt_eq(a: Option<(Seq<FieldValue>, Seq<u8>)>, b: Option<(Seq<FieldValue>, Seq<u8>)>) -> bool {
    match (a, b) { (None, None) => true, (Some((x, r)), Some((y, s))) => x =~= y && r =~= s, _ => false }
}
pub open spec fn after(done: Seq<FieldValue>, x: Option<(Seq<FieldValue>, Seq<u8>)>) -> Option<(Seq<FieldValue>, Seq<u8>)> {
    match x { None => None, Some((vs, r)) => Some((done + vs, r)) }
}
proof fn lemma_ifield_step(fields: Seq<TemplateField>, k: int, b: Seq<u8>, done: Seq<FieldValue>)
    requires 0 <= k < fields.len(), ifv(fields[k], b) is Some,
    ensures opt_eq(after(done, irec(fields, k, b)), after(done.push(ifv(fields[k], b)->Some_0.0), irec(fields, k + 1, ifv(fields[k], b)->Some_0.1))),
{
    let s = ifv(fields[k], b)->Some_0;
    let x = irec(fields, k + 1, s.1);
    if x is Some { assert(done + (seq![s.0] + x->Some_0.0) =~= done.push(s.0) + x->Some_0.0); }
}
pub open spec fn opt2_eq(a: Option<(Seq<Seq<FieldValue>>, Seq<u8>)>, b: Option<(Seq<Seq<FieldValue>>, Seq<u8>)>) -> bool {
    match (a, b) { (None, None) => true, (Some((x, r)), Some((y, s))) => x =~= y && r =~= s, _ => false }
}
pub open spec fn after2(done: Seq<Seq<FieldValue>>, x: Option<(Seq<Seq<FieldValue>>, Seq<u8>)>) -> Option<(Seq<Seq<FieldValue>>, Seq<u8>)> {
    match x { None => None, Some((rows, r)) => Some((done + rows, r)) }
}
/// one more record `vs` read from b, leaving `rest`: either the loop goes on from rest, or this was the last record
proof fn lemma_irecs_step(fields: Seq<TemplateField>, b: Seq<u8>, done: Seq<Seq<FieldValue>>)
    requires irec(fields, 0, b) is Some, irec(fields, 0, b)->Some_0.1.len() <= b.len(),
    ensures ({
        let vs = irec(fields, 0, b)->Some_0.0; let rest = irec(fields, 0, b)->Some_0.1; let taken = b.len() - rest.len();
        if taken <= 0 || rest.len() < taken { opt2_eq(after2(done, irecs(fields, b)), Some((done.push(vs), rest))) }
        else { opt2_eq(after2(done, irecs(fields, b)), after2(done.push(vs), irecs(fields, rest))) } }),
{
    let vs = irec(fields, 0, b)->Some_0.0; let rest = irec(fields, 0, b)->Some_0.1; let taken = b.len() - rest.len();
    if taken <= 0 || rest.len() < taken {
        assert(done + seq![vs] =~= done.push(vs));
    } else {
        let x = irecs(fields, rest);
        if x is Some { assert(done + (seq![vs] + x->Some_0.0) =~= done.push(vs) + x->Some_0.0); }
    }
}
proof fn lemma_flat_push(fields: Seq<TemplateField>, rows: Seq<Seq<FieldValue>>, vs: Seq<FieldValue>)
    ensures flat_maps(fields, rows.push(vs)) =~= flat_maps(fields, rows) + row_maps(fields, vs),
{
    assert(rows.push(vs).drop_last() =~= rows);
    assert(rows.push(vs).last() == vs);
}

pub struct FieldParser;
impl FieldParser {
//@ fn src/variable_versions/ipfix.rs - /impl FieldParser/ parse
//@   result: r
//@   prerules: R16
//@   rules: R2
//@   contract: stubs/ipfix_fieldparser_parse.rs
//@   beforeloop 0: let ghost fs = template.fields_spec(); let ghost mut rows = Seq::<Seq<FieldValue>>::empty();
//@       proof { assert(rows + irecs(fs, i@)->Some_0.0 =~= irecs(fs, i@)->Some_0.0); assert(out_view(fields@) =~= flat_maps(fs, rows)); }
//@   loop 0: invariant_except_break
//@           opt2_eq(after2(rows, irecs(fs, remaining@)), irecs(fs, i@)),
//@       invariant fs == template.fields_spec(), out_view(fields@) =~= flat_maps(fs, rows),
//@       ensures opt2_eq(Some((rows, remaining@)), irecs(fs, i@)),
//@       decreases remaining@.len()
//@   loopstart 0: let ghost b = remaining@; let ghost rows0 = rows; let ghost out0 = fields@;
//@   beforeloop 1: let ghost mut vals = Seq::<FieldValue>::empty();
//@       proof { assert(vals + irec(fs, 0, b)->Some_0.0 =~= irec(fs, 0, b)->Some_0.0); assert(out_view(__acc.1@) =~= row_maps(fs, vals));
//@               assert(b.len() <= usize::MAX) by { let _ = remaining.len(); } }
//@   loop 1: invariant __k <= __it.len(), __it@ == fs, vals.len() == __k, b == remaining@, fs == template.fields_spec(),
//@           out_view(__acc.1@) =~= row_maps(fs, vals),
//@           opt_eq(after(vals, irec(fs, __k as int, __acc.0@)), irec(fs, 0, b)),
//@           __acc.0@.len() <= b.len(), __acc.2 == b.len() - __acc.0@.len(), b.len() <= usize::MAX,
//@           opt2_eq(after2(rows, irecs(fs, b)), irecs(fs, i@)),
//@       decreases __it.len() - __k
//@   loopstart 1: let ghost bk = __acc.0@; let ghost ck = __k as int; let ghost outk = __acc.1@; let ghost valsk = vals;
//@   loopend 1: proof {
//@       lemma_ifield_step(fs, ck, bk, vals);
//@       vals = vals.push(ifv(fs[ck], bk)->Some_0.0);
//@       assert(outk.len() == ck) by { assert(out_view(outk).len() == row_maps(fs, valsk).len()); }
//@       assert(__acc.1@ =~= outk.push(__acc.1@.last()));
//@       assert(__acc.1@.last()@ =~= single(fs, ck, vals[ck]));
//@       assert forall|j: int| 0 <= j < __acc.1@.len() implies out_view(__acc.1@)[j] == row_maps(fs, vals)[j] by {
//@           if j < ck { assert(out_view(outk)[j] == row_maps(fs, valsk)[j]); }
//@       }
//@   }
//@   afterloop 1: proof {
//@       lemma_irecs_step(fs, b, rows0);
//@       lemma_flat_push(fs, rows0, vals);
//@       rows = rows0.push(vals);
//@   }
//@ end
}
} // verus!
fn main() {}
