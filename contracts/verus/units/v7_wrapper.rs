// UNIT v7.wrapper -- V7Parser::parse, verbatim from src/static_versions/v7.rs
//@ include prelude.rs
//@ include lib_types.rs
//@ include lib_spec.rs
verus! {
impl ParsedNetflow {
//@ stub stubs/parsed_netflow_new.rs
}
impl V7 {
//@ stub stubs/v7_parse.rs
}
pub struct V7Parser;
impl V7Parser {
//@ fn src/static_versions/v7.rs - /impl V7Parser/ parse
//@   contract: stubs/v7parser_parse.rs
//@   prerules: R30
//@   bodystart: broadcast use lemma_cloned_u8;
//@ end
}
} // verus!
fn main() {}
