// UNIT ipfix.to_be_bytes -- IPFix::to_be_bytes, verbatim from src/variable_versions/ipfix.rs:377-447.  C10: the
// re-export is the message header followed, set by set, by the set header and the body as received: template
// records (id, announced field count, each specifier's element NUMBER, length), options-template records, padding of
// every kind of set.  The per-record loops of data / options-data sets (BTreeMap iteration; values re-encoded by
// FieldValue::to_be_bytes: K.rt.*) are contracted stubs (R5).
// KNOWN FINDING (known_findings.txt, C10): for a specifier with an enterprise number the element id is re-emitted
// WITHOUT the enterprise bit; the contract below therefore speaks only about messages without enterprise specifiers.
//@ include prelude.rs
verus! {
//@ type src/variable_versions/ipfix_lookup.rs - IPFixField
#[verifier::external_body] pub struct FieldValue { _p: () }
#[verifier::external_body] pub struct VfError { _p: () }
//@ type src/variable_versions/ipfix.rs - IPFix
//@ type src/variable_versions/ipfix.rs - Header
//@ type src/variable_versions/ipfix.rs - FlowSet
//@ type src/variable_versions/ipfix.rs - FlowSetHeader
//@ type src/variable_versions/ipfix.rs - FlowSetBody
//@ type src/variable_versions/ipfix.rs - Template
//@ type src/variable_versions/ipfix.rs - OptionsTemplate
//@ type src/variable_versions/ipfix.rs - TemplateField
//@ type src/variable_versions/ipfix.rs - Data
//@ type src/variable_versions/ipfix.rs - OptionsData
}
//@ layout ipfix +append
verus! {
//@ alias src/variable_versions/ipfix.rs - IPFixFieldPair
pub type VfPair = IPFixFieldPair;
}
//@ include records_enc_spec.rs
verus! {
pub type Records = Vec<BTreeMap<usize, (IPFixField, FieldValue)>>;
/// wire image of the records of a data / options-data set (V.ipfix.export_records)
pub open spec fn ipfix_records_enc(s: Seq<BTreeMap<usize, (IPFixField, FieldValue)>>) -> Seq<u8> { recs_enc(s, s.len() as int) }
// R5 stubs for the two data-record loops; their contracts are discharged by V.ipfix.export_records on the loops themselves
//@ stub stubs/ipfix_export_records.rs
//@ stub stubs/ipfix_export_records_od.rs

/// RFC 7011 3.2 wire image of a field specifier *without* an enterprise number
pub open spec fn tf_enc(f: TemplateField) -> Seq<u8> { enc16(f.field_type_number) + enc16(f.field_length) }
pub open spec fn tfs_enc(s: Seq<TemplateField>) -> Seq<u8> decreases s.len() {
    if s.len() == 0 { Seq::<u8>::empty() } else { tfs_enc(s.drop_last()) + tf_enc(s.last()) } }
pub open spec fn no_enterprise(s: Seq<TemplateField>) -> bool { forall|k: int| 0 <= k < s.len() ==> (#[trigger] s[k]).enterprise_number is None }
pub open spec fn body_plain(b: FlowSetBody) -> bool {
    match b { FlowSetBody::Template(t) => no_enterprise(t.fields@), FlowSetBody::OptionsTemplate(t) => no_enterprise(t.fields@), _ => true } }
pub open spec fn body_enc(b: FlowSetBody) -> Seq<u8> {
    match b {
        FlowSetBody::Template(t) => enc16(t.template_id) + enc16(t.field_count) + tfs_enc(t.fields@) + t.padding@,
        FlowSetBody::OptionsTemplate(t) => enc16(t.template_id) + enc16(t.field_count) + enc16(t.scope_field_count) + tfs_enc(t.fields@) + t.padding@,
        FlowSetBody::Data(d) => ipfix_records_enc(d.fields@) + d.padding@,
        FlowSetBody::OptionsData(d) => ipfix_records_enc(d.fields@) + d.padding@,
    }
}
pub open spec fn fs_enc(f: FlowSet) -> Seq<u8> { enc16(f.header.header_id) + enc16(f.header.length) + body_enc(f.body) }
pub open spec fn fss_enc(s: Seq<FlowSet>) -> Seq<u8> decreases s.len() {
    if s.len() == 0 { Seq::<u8>::empty() } else { fss_enc(s.drop_last()) + fs_enc(s.last()) } }
pub open spec fn all_plain(s: Seq<FlowSet>) -> bool { forall|k: int| 0 <= k < s.len() ==> body_plain((#[trigger] s[k]).body) }
pub open spec fn ipfix_message_enc(p: IPFix) -> Seq<u8> { ipfix_header_enc(p.header) + fss_enc(p.flowsets@) }

pub proof fn lemma_take_step<T>(s: Seq<T>, k: int)
    requires 0 <= k < s.len(),
    ensures s.take(k + 1).drop_last() == s.take(k), s.take(k + 1).last() == s[k],
{
    assert(s.take(k + 1).drop_last() =~= s.take(k));
}
pub proof fn lemma_take_all<T>(s: Seq<T>) ensures s.take(s.len() as int) == s { assert(s.take(s.len() as int) =~= s); }

impl IPFix {
//@ fn src/variable_versions/ipfix.rs - /impl IPFix/ to_be_bytes
//@   result: r
//@   rules: R1 R12
//@   ensures: r is Ok && all_plain(self.flowsets@) ==> r->Ok_0@ == ipfix_message_enc(*self)
//@   beforefor 0: proof {
//@       lemma_ipfix_header_enc_append(Seq::<u8>::empty(), self.header);
//@       assert(result@ =~= ipfix_header_enc(self.header));
//@   }
//@   forloop 0: it | invariant all_plain(self.flowsets@) ==> result@ == ipfix_header_enc(self.header) + fss_enc(self.flowsets@.take(it.index@ as int)), it.index@ <= self.flowsets@.len()
//@   forstart 0: let ghost b0 = result@; proof { assert(*flow == self.flowsets@[it.index@ as int]); }
//@   forloop 1: it1 | invariant no_enterprise(template.fields@) ==> result_flowset@ == enc16(template.template_id) + enc16(template.field_count) + tfs_enc(template.fields@.take(it1.index@ as int)), it1.index@ <= template.fields@.len()
//@   forstart 1: let ghost f0 = result_flowset@;
//@   forend 1: proof { lemma_take_step(template.fields@, it1.index@ as int); assert(*field == template.fields@[it1.index@ as int]);
//@       if no_enterprise(template.fields@) {
//@           assert(field.enterprise_number is None);
//@           assert(result_flowset@ =~= enc16(template.template_id) + enc16(template.field_count) + (tfs_enc(template.fields@.take(it1.index@ as int)) + tf_enc(*field))); } }
//@   after "result_flowset.extend_from_slice(&template.padding);": proof { lemma_take_all(template.fields@); }
//@   forloop 2: it2 | invariant no_enterprise(options_template.fields@) ==> result_flowset@ == enc16(options_template.template_id) + enc16(options_template.field_count) + enc16(options_template.scope_field_count) + tfs_enc(options_template.fields@.take(it2.index@ as int)), it2.index@ <= options_template.fields@.len()
//@   forend 2: proof { lemma_take_step(options_template.fields@, it2.index@ as int); assert(*field == options_template.fields@[it2.index@ as int]);
//@       if no_enterprise(options_template.fields@) {
//@           assert(field.enterprise_number is None);
//@           assert(result_flowset@ =~= enc16(options_template.template_id) + enc16(options_template.field_count) + enc16(options_template.scope_field_count) + (tfs_enc(options_template.fields@.take(it2.index@ as int)) + tf_enc(*field))); } }
//@   after "result_flowset.extend_from_slice(&options_template.padding);": proof { lemma_take_all(options_template.fields@); }
//@   opaquefor 3: vf_export_records(&mut result_flowset, data)?;
//@   opaquefor 5: vf_export_records_od(&mut result_flowset, data)?;
//@   forend 0: proof {
//@       if all_plain(self.flowsets@) {
//@           assert(body_plain(flow.body));
//@           assert(result@ =~= b0 + (enc16(flow.header.header_id) + enc16(flow.header.length) + body_enc(flow.body)));
//@           lemma_take_step(self.flowsets@, it.index@ as int);
//@           assert(result@ =~= ipfix_header_enc(self.header) + (fss_enc(self.flowsets@.take(it.index@ as int)) + fs_enc(*flow)));
//@       }
//@   }
//@   before "Ok(result)": proof { lemma_take_all(self.flowsets@); }
//@ end
}
} // verus!
fn main() {}
