// UNIT ipfix.flowset -- nom-derive expansion of ipfix::FlowSet (set header + body of length-4 bytes handed to
// FlowSetBody::parse), src/variable_versions/ipfix.rs:192-203.  C02/C14: a set consumes max(length,4) bytes and
// its announced bytes must be present BEFORE anything is interpreted (else Err, caches untouched);
// C06: the caches change exactly as FlowSetBody::parse changes them.
//@ include prelude.rs
verus! {
#[verifier::external_body] pub struct FlowSetBody { _p: () }
#[verifier::external_body] pub struct IPFixParser { _p: () }
//@ type src/variable_versions/ipfix.rs - FlowSet
//@ type src/variable_versions/ipfix.rs - FlowSetHeader
}
//@ include ipfix_set_spec.rs
verus! {
impl FlowSetBody {
    #[verifier::external_body]
    fn parse<'a>(i: &'a [u8], parser: &mut IPFixParser, id: u16) -> (r: IResult<&'a [u8], FlowSetBody>)
        ensures (match r { Ok((_, b)) => Some(b), Err(_) => None }, *final(parser)) == body_fn(*old(parser), i@, id),
    { unimplemented!() }
}
impl FlowSetHeader {
    // V.ipfix.templates + K.ipfix.flowset_header
    #[verifier::external_body]
    fn parse_be<'a>(i: &'a [u8]) -> (r: IResult<&'a [u8], FlowSetHeader>)
        ensures fixed_post(i, r, 4), r is Ok ==> r->Ok_0.1.header_id == be16(i@, 0) && r->Ok_0.1.length == be16(i@, 2),
    { unimplemented!() }
}
impl FlowSet {
//@ fn expanded variable_versions::ipfix /impl<'nom> FlowSet/ parse_be
//@   result: r
//@   generics: <'nom>
//@   prerules: R30 R15
//@   rules: R7
//@   before "match ({ let i = __mr_o1;": proof {
//@       let b = orig_i@;
//@       assert(__mr_in@ == b.subrange(4, b.len() as int));
//@       let ln = __mr_o1@.len() as int;      // the bytes `take(..)` handed to the body parser (no name of /repo's locals is used)
//@       assert(ln == set_body_len(b));
//@       lemma_sub_sub2(b, 4, b.len() as int, 0, ln);
//@       lemma_sub_sub2(b, 4, b.len() as int, ln, b.len() - 4);
//@   }
//@   ensures: flowset_post(*old(parser), *final(parser), orig_i, r)
//@ end
//@ fn expanded variable_versions::ipfix /impl<'nom> FlowSet/ parse
//@   result: r
//@   generics: <'nom>
//@   contract: stubs/ipfix_flowset_parse.rs
//@ end
}
} // verus!
fn main() {}
