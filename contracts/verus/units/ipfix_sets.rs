// UNIT ipfix.sets -- the set loop of an IPFIX message: the body of the map_res closure in the nom-derive expansion of
// ipfix::IPFix (src/variable_versions/ipfix.rs:60-66), `many0(complete(|i| FlowSet::parse(i, parser)..))(i).map(..)`,
// in closure-converted form (rule R17, tools/lift.py): the many0 and complete loops are nom 7.1.3's own text.
// C05: all sets inside the message length are processed, in order, each from where the previous one ended;
// C07: a set that cannot be read (unknown template, ...) ends the loop -- it and the rest are omitted, never an error,
// never records; C01: the loop terminates (every set consumes >= 4 bytes); C06: the caches change set by set.
//@ include prelude.rs
verus! {
#[verifier::external_body] pub struct FlowSetBody { _p: () }
#[verifier::external_body] pub struct IPFixParser { _p: () }
//@ type src/variable_versions/ipfix.rs - FlowSet
//@ type src/variable_versions/ipfix.rs - FlowSetHeader
}
//@ include ipfix_set_spec.rs
verus! {
impl FlowSet {
//@ stub stubs/ipfix_flowset_parse.rs
}
pub open spec fn nom_view_set<'a>(r: IResult<&'a [u8], FlowSet>) -> Option<(FlowSet, Seq<u8>)> {
    match r { Ok((rest, f)) => Some((f, rest@)), Err(_) => None }
}
proof fn lemma_post_step<'a>(old_p: IPFixParser, new_p: IPFixParser, b: &'a [u8], r: IResult<&'a [u8], FlowSet>)
    requires flowset_post(old_p, new_p, b, r),
    ensures set_step(old_p, b@).1 == new_p,
        r is Err <==> set_step(old_p, b@).0 is None,
        r is Ok ==> set_step(old_p, b@).0 == Some((r->Ok_0.1, r->Ok_0.0@)) && r->Ok_0.0@.len() < b@.len(),
{
}
pub open spec fn pre3(done: Seq<FlowSet>, x: (Seq<FlowSet>, Seq<u8>, IPFixParser)) -> (Seq<FlowSet>, Seq<u8>, IPFixParser) { (done + x.0, x.1, x.2) }
pub open spec fn eq3(a: (Seq<FlowSet>, Seq<u8>, IPFixParser), b: (Seq<FlowSet>, Seq<u8>, IPFixParser)) -> bool { a.0 =~= b.0 && a.1 =~= b.1 && a.2 == b.2 }
proof fn lemma_sets_step(st: IPFixParser, b: Seq<u8>, done: Seq<FlowSet>)
    requires set_step(st, b).0 is Some, set_step(st, b).0->Some_0.1.len() < b.len(),
    ensures eq3(pre3(done, sets_spec(st, b)), pre3(done.push(set_step(st, b).0->Some_0.0), sets_spec(set_step(st, b).1, set_step(st, b).0->Some_0.1))),
{
    let f = set_step(st, b).0->Some_0.0;
    let x = sets_spec(set_step(st, b).1, set_step(st, b).0->Some_0.1);
    assert(done + (seq![f] + x.0) =~= done.push(f) + x.0);
}

//@ fn lifted:ipfix_sets - /-/ vf_ipfix_sets__elem
//@   result: r
//@   prerules: R30
//@   ensures: flowset_post(*old(parser), *final(parser), i, r)
//@ end
//@ fn lifted:ipfix_sets - /-/ vf_ipfix_sets__complete
//@   result: r
//@   ensures: flowset_post(*old(parser), *final(parser), input, r)
//@ end
//@ fn lifted:ipfix_sets - /-/ vf_ipfix_sets__many0
//@   result: r
//@   ensures: r is Ok, eq3((r->Ok_0.1@, r->Ok_0.0@, *final(parser)), sets_spec(*old(parser), i__in@))
//@   beforeloop 0: let ghost st0 = *parser; proof { assert(Seq::<FlowSet>::empty() + sets_spec(st0, i__in@).0 =~= sets_spec(st0, i__in@).0); }
//@   loop 0: invariant st0 == *old(parser), eq3(pre3(acc@, sets_spec(*parser, i@)), sets_spec(st0, i__in@)),
//@       decreases i@.len()
//@   loopstart 0: let ghost stk = *parser; let ghost ik = i; let ghost acck = acc@;
//@   loopend 0: proof { lemma_post_step(stk, *parser, ik, Ok((i, acc@.last()))); lemma_sets_step(stk, ik@, acck); }
//@ end
//@ fn lifted:ipfix_sets - /-/ vf_ipfix_sets
//@   result: r
//@   contract: stubs/ipfix_sets.rs
//@   prerules: R30
//@ end
} // verus!
fn main() {}
