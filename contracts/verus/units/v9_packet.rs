// UNIT v9.packet -- nom-derive expansion of v9::V9 (header, then FlowSetParser::parse_flowsets(i, parser, header.count)),
// src/variable_versions/v9.rs:51-59.  C02/C04/C11: the 18 header bytes are decoded per RFC 3954, the flowset loop is
// started exactly after them with exactly header.count, its remainder and result are returned unchanged, an error
// fails the packet.  The loop is called through its contract stubs/v9_parse_flowsets.rs, discharged by V.v9.flowsets.
//@ include prelude.rs
verus! {
#[verifier::external_body] pub struct FlowSetBody { _p: () }
#[verifier::external_body] pub struct V9Parser { _p: () }
//@ type src/variable_versions/v9.rs - FlowSet
//@ type src/variable_versions/v9.rs - V9
//@ type src/variable_versions/v9.rs - Header
//@ type src/variable_versions/v9.rs - FlowSetHeader
}
//@ layout v9
//@ include v9_set_spec.rs
verus! {
pub open spec fn nom_view<T>(r: IResult<&[u8], T>) -> Option<(T, Seq<u8>)> {
    match r { Ok((rest, v)) => Some((v, rest@)), Err(_) => None }
}
pub struct FlowSetParser;
impl FlowSetParser {
//@ stub stubs/v9_parse_flowsets.rs
}
impl Header {
    // V.v9.templates + K.v9.header
    #[verifier::external_body]
    fn parse_be<'a>(i: &'a [u8]) -> (r: IResult<&'a [u8], Header>)
        ensures fixed_post(i, r, 18), r is Ok ==> r->Ok_0.1 == v9_header_dec(i@, 0),
    { unimplemented!() }
}
pub open spec fn v9_packet_post<'a>(old_p: V9Parser, new_p: V9Parser, b: &'a [u8], r: IResult<&'a [u8], V9>) -> bool {
    if b@.len() < 18 { r is Err && new_p == old_p } else {
        let h = v9_header_dec(b@, 0);
        let (res, st1) = flowsets_spec(old_p, b@.subrange(18, b@.len() as int), h.count as int);   // the flowset loop (V.v9.flowsets)
        &&& new_p == st1
        &&& (res is None ==> r is Err)
        &&& (res is Some ==> r is Ok && r->Ok_0.1.header == h && r->Ok_0.1.flowsets@ =~= res->Some_0.0 && r->Ok_0.0@ =~= res->Some_0.1)
    }
}
impl V9 {
//@ fn expanded variable_versions::v9 /impl<'nom> V9/ parse_be
//@   result: r
//@   generics: <'nom>
//@   rules: R9b
//@   ensures: v9_packet_post(*old(parser), *final(parser), orig_i, r)
//@   ensures: r is Ok ==> is_suffix(r->Ok_0.0@, orig_i@)
//@   before "let i = orig_i;": proof {
//@       if orig_i@.len() >= 18 {
//@           let body = orig_i@.subrange(18, orig_i@.len() as int);
//@           lemma_flowsets_suffix(*parser, body, v9_header_dec(orig_i@, 0).count as int);
//@           assert(is_suffix(body, orig_i@));
//@           let res = flowsets_spec(*parser, body, v9_header_dec(orig_i@, 0).count as int).0;
//@           if res is Some { lemma_suffix_trans(res->Some_0.1, body, orig_i@); }
//@       }
//@   }
//@ end
//@ fn expanded variable_versions::v9 /impl<'nom> V9/ parse
//@   result: r
//@   generics: <'nom>
//@   ensures: v9_packet_post(*old(parser), *final(parser), orig_i, r)
//@   ensures: r is Ok ==> is_suffix(r->Ok_0.0@, orig_i@)
//@ end
}
} // verus!
fn main() {}
