// UNIT lib.parse_bytes -- NetflowParser::parse_bytes, verbatim from src/lib.rs
//@ include prelude.rs
//@ include lib_types.rs
//@ include lib_spec.rs
verus! {

// (R2 wrapper kept for refactorings that use Vec::extend)
// R2 wrapper: `results.extend(v)` for v: Vec<T>  (body is the original call)
#[verifier::external_body]
pub fn vf_extend<T>(v: &mut Vec<T>, w: Vec<T>)
    ensures final(v)@ == old(v)@ + w@,
            final(v)@.subrange(old(v)@.len() as int, final(v)@.len() as int) == w@,  // consequence of the line above
{ v.extend(w) }

impl NetflowParser {
    // contract of parse_packet_by_version, proved in unit V.lib.ppbv
//@ stub stubs/lib_ppbv.rs

//@ fn src/lib.rs - /impl NetflowParser/ parse_bytes
//@   result: out
//@   ensures: final(self).allowed_versions == old(self).allowed_versions
//@   ensures: pviews_eq(pviews(out@), spec_pb(state_of(*old(self)), old(self).allowed_versions@, packet@).0)
//@   ensures: state_of(*final(self)) == spec_pb(state_of(*old(self)), old(self).allowed_versions@, packet@).1
//@   beforeloop 0: broadcast use lemma_cloned_u8; broadcast use lemma_subres_eq;
//@       let ghost st0 = state_of(*self); let ghost al = self.allowed_versions@; let ghost av = self.allowed_versions;
//@       proof { assert(packet@.subrange(0, packet@.len() as int) =~= packet@); assert(pviews(Seq::<NetflowPacket>::empty()) =~= Seq::<PView>::empty()); }
//@   loop 0: invariant_except_break
//@           offset <= packet@.len(),
//@           self.allowed_versions == av, av@ == al,
//@           pviews(results@) + spec_pb(state_of(*self), al, packet@.subrange(offset as int, packet@.len() as int)).0 == spec_pb(st0, al, packet@).0,
//@           spec_pb(state_of(*self), al, packet@.subrange(offset as int, packet@.len() as int)).1 == spec_pb(st0, al, packet@).1,
//@       ensures
//@           self.allowed_versions == av,
//@           pviews(results@) == spec_pb(st0, al, packet@).0,
//@           state_of(*self) == spec_pb(st0, al, packet@).1,
//@       decreases packet@.len() - offset
//@   loopstart 0: let ghost stk = state_of(*self); let ghost res0 = results@;
//@   before "match self.parse_packet_by_version(current)": proof { assert(current@ == packet@.subrange(offset as int, packet@.len() as int)); }
//@   after "results.push(parsed_netflow.result);": proof {
//@       let pk = parsed_netflow.result;
//@       let rem = parsed_netflow.remaining@;
//@       assert(pp_spec(stk, al, current@).0 == SubRes::Ok { pkt: pk, rem: rem });
//@       assert(pviews(results@) =~= pviews(res0) + seq![pview(pk)]);
//@       let k = offset + (current@.len() - rem.len());
//@       assert(packet@.subrange(k, packet@.len() as int) =~= rem);
//@       if rem.len() == 0 {
//@           assert(spec_pb(state_of(*self), al, rem).0 =~= Seq::<PView>::empty());
//@           assert(pviews(results@) + spec_pb(state_of(*self), al, rem).0 =~= pviews(res0) + seq![pview(pk)]);
//@       } else {
//@           assert(spec_pb(stk, al, current@).0 == seq![pview(pk)] + spec_pb(state_of(*self), al, rem).0);
//@           assert(pviews(results@) + spec_pb(state_of(*self), al, rem).0 =~= pviews(res0) + (seq![pview(pk)] + spec_pb(state_of(*self), al, rem).0));
//@       }
//@   }
//@   before "break; } } } results": proof {
//@       let ev = results@.last();
//@       assert(pviews(results@) =~= pviews(res0) + seq![pview(ev)]);
//@       let r1 = pp_spec(stk, al, current@).0;
//@       assert(r1 is Err && !(r1->Err_0 is Unallowed));
//@       assert(ev matches NetflowPacket::Error(ee) && ee.remaining@ =~= current@ && eview(ee.error) == r1->Err_0);
//@       assert(pview(ev) == PView::Err { kind: r1->Err_0, remaining: current@ });
//@       assert(spec_pb(stk, al, current@).0 =~= seq![pview(ev)]);
//@   }
//@ end
}

} // verus!
fn main() {}
