// UNIT lib.parse_bytes -- NetflowParser::parse_bytes, verbatim from src/lib.rs
//@ include prelude.rs
//@ include lib_types.rs
//@ include lib_spec.rs
verus! {

// R2 wrapper: `results.extend(v)` for v: Vec<T>  (body is the original call)
#[verifier::external_body]
pub fn vf_extend<T>(v: &mut Vec<T>, w: Vec<T>)
    ensures final(v)@ == old(v)@ + w@,
            final(v)@.subrange(old(v)@.len() as int, final(v)@.len() as int) == w@,  // consequence of the line above
{ v.extend(w) }

impl NetflowParser {
    // contract of parse_packet_by_version, proved in unit V.lib.ppbv
//@ stub stubs/lib_ppbv.rs

//@ fn src/lib.rs - /impl NetflowParser/ parse_bytes
//@   result: out
//@   ensures: final(self).allowed_versions == old(self).allowed_versions
//@   ensures: pviews_eq(pviews(out@), spec_pb(state_of(*old(self)), old(self).allowed_versions@, packet@).0)
//@   ensures: state_of(*final(self)) == spec_pb(state_of(*old(self)), old(self).allowed_versions@, packet@).1
//@   decreases: packet@.len()
//@   rules: R2
//@   before "if packet.is_empty()": broadcast use lemma_cloned_u8; broadcast use lemma_subres_eq;
//@   before "match self.parse_packet_by_version(packet)": let ghost st0 = state_of(*self); let ghost al = self.allowed_versions@;
//@   before "let mut results": let ghost st1 = state_of(*self);
//@   before "results }": proof {
//@         let sp = spec_pb(st0, al, packet@);
//@         let pk = parsed_netflow.result;
//@         let rem = parsed_netflow.remaining@;
//@         assert(pp_spec(st0, al, packet@).0 == SubRes::Ok { pkt: pk, rem: rem });
//@         if rem.len() == 0 {
//@             assert(results@ =~= seq![pk]);
//@             assert(pviews(results@) =~= seq![pview(pk)]);
//@         } else {
//@             let rec = spec_pb(st1, al, rem);
//@             let tail = results@.subrange(1, results@.len() as int);
//@             assert(sp.0 == seq![pview(pk)] + rec.0);
//@             lemma_pviews_eq(pviews(tail), rec.0);
//@             assert(pviews(results@) =~= seq![pview(pk)] + pviews(tail));
//@         }
//@     }
//@ end
}

} // verus!
fn main() {}
