// UNIT v9.flowsets -- FlowSetParser::parse_flowsets, verbatim from src/variable_versions/v9.rs:431-447, with the
// `(0..record_count).try_fold(..)?` expression replaced by the definition of try_fold (rule R16).  C02/C07/C11/C14 for
// a V9 packet body: at most header.count flowsets are read, one after the other, each from where the previous one
// ended; reading stops at the end of the buffer; an undecodable flowset fails the whole packet; nothing else is read.
//@ include prelude.rs
verus! {
#[verifier::external_body] pub struct FlowSet { _p: () }
#[verifier::external_body] pub struct V9Parser { _p: () }
/// semantic function of v9::FlowSet::parse (its contract: V.v9.flowset)
pub uninterp spec fn fs_fn(st: V9Parser, b: Seq<u8>) -> (Option<(FlowSet, Seq<u8>)>, V9Parser);
impl FlowSet {
    #[verifier::external_body]
    fn parse<'a>(i: &'a [u8], parser: &mut V9Parser) -> (r: IResult<&'a [u8], FlowSet>)
        ensures (match r { Ok((rest, f)) => Some((f, rest@)), Err(_) => None }, *final(parser)) == fs_fn(*old(parser), i@),
    { unimplemented!() }
}
/// the flowsets of a packet body: up to n of them, back to back, stopping at the end of the bytes;
/// None if one of them cannot be decoded
pub open spec fn flowsets_spec(st: V9Parser, b: Seq<u8>, n: int) -> (Option<(Seq<FlowSet>, Seq<u8>)>, V9Parser)
    decreases n
{
    if n <= 0 || b.len() == 0 {
        (Some((Seq::<FlowSet>::empty(), b)), st)
    } else {
        let (r, st1) = fs_fn(st, b);
        match r {
            None => (None, st1),
            Some((f, rest)) => {
                let (r2, st2) = flowsets_spec(st1, rest, n - 1);
                match r2 { None => (None, st2), Some((fs, rem)) => (Some((seq![f] + fs, rem)), st2) }
            },
        }
    }
}
/// `done` flowsets already read, then whatever flowsets_spec yields from here
pub open spec fn after(done: Seq<FlowSet>, x: (Option<(Seq<FlowSet>, Seq<u8>)>, V9Parser)) -> (Option<(Seq<FlowSet>, Seq<u8>)>, V9Parser) {
    (match x.0 { None => None, Some((fs, rem)) => Some((done + fs, rem)) }, x.1)
}
pub open spec fn res_eq(a: (Option<(Seq<FlowSet>, Seq<u8>)>, V9Parser), b: (Option<(Seq<FlowSet>, Seq<u8>)>, V9Parser)) -> bool {
    a.1 == b.1 && match (a.0, b.0) { (None, None) => true, (Some((f1, r1)), Some((f2, r2))) => f1 =~= f2 && r1 =~= r2, _ => false }
}
proof fn lemma_step(st: V9Parser, b: Seq<u8>, n: int, done: Seq<FlowSet>)
    requires n > 0, b.len() > 0, fs_fn(st, b).0 is Some,
    ensures res_eq(after(done, flowsets_spec(st, b, n)),
                   after(done.push(fs_fn(st, b).0->Some_0.0), flowsets_spec(fs_fn(st, b).1, fs_fn(st, b).0->Some_0.1, n - 1))),
{
    let f = fs_fn(st, b).0->Some_0.0;
    let x = flowsets_spec(fs_fn(st, b).1, fs_fn(st, b).0->Some_0.1, n - 1);
    if x.0 is Some {
        assert(done + (seq![f] + x.0->Some_0.0) =~= done.push(f) + x.0->Some_0.0);
    }
}

pub struct FlowSetParser;
impl FlowSetParser {
//@ fn src/variable_versions/v9.rs - /impl FlowSetParser/ parse_flowsets
//@   result: r
//@   prerules: R16
//@   ensures: res_eq((match r { Ok((rem, v)) => Some((v@, rem@)), Err(_) => None }, *final(parser)), flowsets_spec(*old(parser), i@, record_count as int))
//@   before "let (remaining, flowsets) =": let ghost st0 = *parser; let ghost b0 = i@; let ghost n = record_count as int;
//@       proof { assert(Seq::<FlowSet>::empty() + flowsets_spec(st0, b0, n).0->Some_0.0 =~= flowsets_spec(st0, b0, n).0->Some_0.0); }
//@   loop 0: invariant
//@           __k <= record_count, n == record_count as int, st0 == *old(parser), b0 == i@,
//@           res_eq(after(__acc.1@, flowsets_spec(*parser, __acc.0@, n - __k)), flowsets_spec(st0, b0, n)),
//@       decreases record_count - __k
//@   before "let (i, flowset) = FlowSet::parse(remaining, parser)?;": let ghost stk = *parser; let ghost remk = remaining@; let ghost donek = flowsets@;
//@   after "flowsets.push(flowset);": proof { lemma_step(stk, remk, n - (__k - 1), donek); }
//@ end
}
} // verus!
fn main() {}
