// UNIT v9.flowsets -- FlowSetParser::parse_flowsets, verbatim from src/variable_versions/v9.rs:431-447, with the
// `(0..record_count).try_fold(..)?` expression replaced by the definition of try_fold (rule R16).  C02/C07/C11/C14 for
// a V9 packet body: at most header.count flowsets are read, one after the other, each from where the previous one
// ended; reading stops at the end of the buffer; an undecodable flowset fails the whole packet; nothing else is read.
//@ include prelude.rs
verus! {
#[verifier::external_body] pub struct FlowSetBody { _p: () }
#[verifier::external_body] pub struct V9Parser { _p: () }
//@ type src/variable_versions/v9.rs - FlowSet
//@ type src/variable_versions/v9.rs - FlowSetHeader
}
//@ include v9_set_spec.rs
verus! {
impl FlowSet {
//@ stub stubs/v9_flowset_parse.rs
}
proof fn lemma_post_step<'a>(old_p: V9Parser, new_p: V9Parser, b: &'a [u8], r: IResult<&'a [u8], FlowSet>)
    requires flowset_post(old_p, new_p, b, r),
    ensures set_step(old_p, b@).1 == new_p,
        r is Err <==> set_step(old_p, b@).0 is None,
        r is Ok ==> set_step(old_p, b@).0 == Some((r->Ok_0.1, r->Ok_0.0@)),
{
}
/// `done` flowsets already read, then whatever flowsets_spec yields from here
pub open spec fn after(done: Seq<FlowSet>, x: (Option<(Seq<FlowSet>, Seq<u8>)>, V9Parser)) -> (Option<(Seq<FlowSet>, Seq<u8>)>, V9Parser) {
    (match x.0 { None => None, Some((fs, rem)) => Some((done + fs, rem)) }, x.1)
}
proof fn lemma_step(st: V9Parser, b: Seq<u8>, n: int, done: Seq<FlowSet>)
    requires n > 0, b.len() > 0, set_step(st, b).0 is Some,
    ensures res_eq(after(done, flowsets_spec(st, b, n)),
                   after(done.push(set_step(st, b).0->Some_0.0), flowsets_spec(set_step(st, b).1, set_step(st, b).0->Some_0.1, n - 1))),
{
    let f = set_step(st, b).0->Some_0.0;
    let x = flowsets_spec(set_step(st, b).1, set_step(st, b).0->Some_0.1, n - 1);
    if x.0 is Some {
        assert(done + (seq![f] + x.0->Some_0.0) =~= done.push(f) + x.0->Some_0.0);
    }
}

pub struct FlowSetParser;
impl FlowSetParser {
//@ fn src/variable_versions/v9.rs - /impl FlowSetParser/ parse_flowsets
//@   result: r
//@   prerules: R16
//@   contract: stubs/v9_parse_flowsets.rs
//@   beforeloop 0: let ghost st0 = *parser; let ghost b0 = i@; let ghost n = record_count as int;
//@       proof { assert(Seq::<FlowSet>::empty() + flowsets_spec(st0, b0, n).0->Some_0.0 =~= flowsets_spec(st0, b0, n).0->Some_0.0); }
//@   loop 0: invariant
//@           __k <= record_count, n == record_count as int, st0 == *old(parser), b0 == i@,
//@           res_eq(after(__acc.1@, flowsets_spec(*parser, __acc.0@, n - __k)), flowsets_spec(st0, b0, n)),
//@       decreases record_count - __k
//@   loopstart 0: let ghost stk = *parser; let ghost remk = __acc.0; let ghost donek = __acc.1@;
//@   loopend 0: proof {
//@       lemma_post_step(stk, *parser, remk, Ok((__acc.0, __acc.1@.last())));
//@       lemma_step(stk, remk@, n - (__k - 1), donek);
//@   }
//@ end
}
} // verus!
fn main() {}
