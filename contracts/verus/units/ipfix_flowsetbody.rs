// UNIT ipfix.flowsetbody -- ipfix::FlowSetBody::parse, verbatim from src/variable_versions/ipfix.rs
// C06: cache transition (latest wins = Map::insert on the whole view; everything else unchanged)
// C07: unknown id => Err and cache unchanged; Data only under a cached template of this parser
//@ include prelude.rs
//@ include ipfix_types.rs
verus! {

}
//@ include ipfix_valid_spec.rs
verus! {
// CommonTemplate::is_valid for the two template kinds (V.ipfix.is_valid): some field has a non-zero length
pub open spec fn tpl_valid(t: Template) -> bool { fields_valid(t.fields@) }
pub open spec fn otpl_valid(t: OptionsTemplate) -> bool { fields_valid(t.fields@) }
impl Template {
    // nom-derive parser of a template record (V.ipfix.template.parse)
    #[verifier::external_body]
    fn parse<'a>(i: &'a [u8]) -> (r: IResult<&'a [u8], Template>) { unimplemented!() }
    // CommonTemplate::is_valid
    #[verifier::external_body]
    fn is_valid(&self) -> (r: bool) ensures r == tpl_valid(*self) { unimplemented!() }
}
impl OptionsTemplate {
    #[verifier::external_body]
    fn parse<'a>(i: &'a [u8]) -> (r: IResult<&'a [u8], OptionsTemplate>) { unimplemented!() }
    #[verifier::external_body]
    fn is_valid(&self) -> (r: bool) ensures r == otpl_valid(*self) { unimplemented!() }
}
impl Data {
//@ stub stubs/ipfix_data_parse.rs
}
impl OptionsData {
//@ stub stubs/ipfix_optionsdata_parse.rs
}

/// the cache transition demanded by C06/C07 for one set body with set id `id`
pub open spec fn ipfix_body_post<'a>(old_p: IPFixParser, new_p: IPFixParser, id: u16, r: IResult<&'a [u8], FlowSetBody>) -> bool {
    if id < 255 && id != 3 {
        match r {
            Ok((_, FlowSetBody::Template(t))) =>
                tpl_valid(t)
                && new_p.templates@ == old_p.templates@.insert(t.template_id, t)      // latest wins, nothing else touched
                && new_p.options_templates == old_p.options_templates,
            Ok(_) => false,
            Err(_) => new_p == old_p,                                                // incomplete / invalid record: untouched
        }
    } else if id == 3 {
        match r {
            Ok((_, FlowSetBody::OptionsTemplate(t))) =>
                otpl_valid(t)
                && new_p.options_templates@ == old_p.options_templates@.insert(t.template_id, t)
                && new_p.templates == old_p.templates,
            Ok(_) => false,
            Err(_) => new_p == old_p,
        }
    } else {
        // data sets never change the caches
        &&& new_p == old_p
        &&& (r matches Ok((_, body)) ==> (
                (body is Data && old_p.templates@.contains_key(id))
                || (body is OptionsData && !old_p.templates@.contains_key(id) && old_p.options_templates@.contains_key(id))))
        // C07: no template of this protocol in this parser => no records
        &&& (!old_p.templates@.contains_key(id) && !old_p.options_templates@.contains_key(id) ==>
                (r matches Err(nom::Err::Error(e)) && e.code == ErrorKind::Verify))
    }
}

impl FlowSetBody {
//@ fn src/variable_versions/ipfix.rs - /impl FlowSetBody/ parse
//@   result: r
//@   prerules: R28
//@   ensures: ipfix_body_post(*old(parser), *final(parser), id, r)
//@ end
}

} // verus!
fn main() {}
