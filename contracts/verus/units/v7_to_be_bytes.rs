// UNIT v7.to_be_bytes -- V7::to_be_bytes, verbatim from src/static_versions/v7.rs, proved equal to
// the wire image generated from the Cisco layout table, for ALL record counts.
//@ include prelude.rs
verus! {
//@ type src/protocol.rs - ProtocolTypes
pub uninterp spec fn proto_of(n: u8) -> ProtocolTypes;
//@ type src/static_versions/v7.rs - V7
//@ type src/static_versions/v7.rs - Header
//@ type src/static_versions/v7.rs - FlowSet
}
//@ layout v7 +append
verus! {
pub open spec fn v7_records_enc(s: Seq<FlowSet>) -> Seq<u8> decreases s.len() {
    if s.len() == 0 { Seq::<u8>::empty() } else { v7_records_enc(s.drop_last()) + v7_record_enc(s.last()) }
}
pub open spec fn v7_packet_enc(p: V7) -> Seq<u8> { v7_header_enc(p.header) + v7_records_enc(p.flowsets@) }

impl V7 {
//@ fn src/static_versions/v7.rs - /impl V7/ to_be_bytes
//@   result: out
//@   rules: R1
//@   ensures: out@ == v7_packet_enc(*self)
//@   forloop 0: it | invariant flows@ == v7_records_enc(self.flowsets@.take(it.index@ as int)), it.index@ <= self.flowsets@.len()
//@   beforefor 0: proof {
//@       lemma_v7_header_enc_append(Seq::<u8>::empty(), self.header);
//@       assert(result@ =~= v7_header_enc(self.header));
//@   }
//@   forstart 0: let ghost f0 = flows@;
//@   forend 0: proof {
//@       lemma_v7_record_enc_append(f0, *set);
//@       let done = self.flowsets@.take(it.index@ + 1);
//@       assert(done.drop_last() =~= self.flowsets@.take(it.index@ as int));
//@       assert(*set == self.flowsets@[it.index@ as int]);
//@       assert(done.last() == *set);
//@   }
//@   before "result.extend_from_slice(&flows);": proof { assert(self.flowsets@.take(self.flowsets@.len() as int) =~= self.flowsets@); }
//@ end
}
} // verus!
fn main() {}
