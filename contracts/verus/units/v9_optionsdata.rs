// UNIT v9.optionsdata -- nom-derive expansion of v9::OptionsData and v9::OptionDataField
// (src/variable_versions/v9.rs:277-305, 388-396).  The two field loops of an options data record are
// `many0(complete(closure capturing &mut field))`: closure-converted by rule R17 (tools/lift.py), the many0 / complete
// bodies being nom 7.1.3's own text.  C04: scope values then option values are read one per field specifier of the
// cached options template, in template order, each exactly field_length bytes from where the previous one ended;
// everything after them is reported as padding; C06/C07: the parser is unchanged, an id without options template
// yields no values.  KNOWN FINDING (known_findings.txt, findings/c04_v9_options_two_records.rs): exactly ONE record is
// decoded per options data flowset; further records end up in `padding` (the postcondition below says so).
//@ include prelude.rs
verus! {
use std::slice::Iter;
use vstd::std_specs::iter::IteratorSpec;
#[verifier::external_body] pub struct V9Field { _p: () }
impl Clone for V9Field { #[verifier::external_body] fn clone(&self) -> (r: Self) ensures r == *self { unimplemented!() } }
impl Copy for V9Field {}
#[verifier::external_body] pub struct Template { _p: () }
//@ alias src/variable_versions/v9.rs - TemplateId
//@ type src/variable_versions/v9_lookup.rs - ScopeFieldType
//@ type src/variable_versions/v9.rs - V9Parser
//@ type src/variable_versions/v9.rs - OptionsTemplate
//@ type src/variable_versions/v9.rs - OptionsTemplateScopeField
//@ type src/variable_versions/v9.rs - TemplateField
//@ type src/variable_versions/v9.rs - ScopeDataField
//@ type src/variable_versions/v9.rs - OptionDataField
//@ type src/variable_versions/v9.rs - OptionsData
impl Clone for OptionsTemplate { #[verifier::external_body] fn clone(&self) -> (r: Self) ensures r == *self { unimplemented!() } }
impl Default for OptionsTemplate { #[verifier::external_body] fn default() -> (r: Self) ensures r.scope_fields@.len() == 0, r.option_fields@.len() == 0 { unimplemented!() } }
}
//@ include v9_options_spec.rs
verus! {
impl ScopeDataField {
//@ stub stubs/v9_scopedatafield_parse.rs
}
pub open spec fn sc_elem_post<'a, 'b>(oldrem: Seq<&'b OptionsTemplateScopeField>, newrem: Seq<&'b OptionsTemplateScopeField>, i: &'a [u8], r: IResult<&'a [u8], ScopeDataField>) -> bool {
    if oldrem.len() == 0 { r is Err && r->Err_0 is Error && newrem == oldrem }
    else { newrem == oldrem.drop_first() && sdf_post(i, *oldrem[0], r) }
}
pub open spec fn odf_post<'a>(i: &'a [u8], tf: TemplateField, r: IResult<&'a [u8], OptionDataField>, soft: bool) -> bool {
    match odf_step(tf, i@) {
        None => r is Err && (if soft { r->Err_0 is Error } else { r->Err_0 is Incomplete }),
        Some((v, rest)) => r is Ok && r->Ok_0.1.field_type == v.0 && r->Ok_0.1.field_value@ =~= v.1 && r->Ok_0.0@ =~= rest,
    }
}
pub open spec fn op_elem_post<'a, 'b>(oldrem: Seq<&'b TemplateField>, newrem: Seq<&'b TemplateField>, i: &'a [u8], r: IResult<&'a [u8], OptionDataField>, soft: bool) -> bool {
    if oldrem.len() == 0 { r is Err && r->Err_0 is Error && newrem == oldrem }
    else { newrem == oldrem.drop_first() && odf_post(i, *oldrem[0], r, soft) }
}
pub open spec fn kind_of(f: ScopeDataField) -> ScopeFieldType {
    match f { ScopeDataField::System(_) => ScopeFieldType::System, ScopeDataField::Interface(_) => ScopeFieldType::Interface,
              ScopeDataField::LineCard(_) => ScopeFieldType::LineCard, ScopeDataField::NetFlowCache(_) => ScopeFieldType::NetflowCache,
              ScopeDataField::Template(_) => ScopeFieldType::Template }
}
pub open spec fn s_eq(a: Option<(Seq<(ScopeFieldType, Seq<u8>)>, Seq<u8>)>, b: Option<(Seq<(ScopeFieldType, Seq<u8>)>, Seq<u8>)>) -> bool {
    match (a, b) { (None, None) => true, (Some((x, r)), Some((y, s))) => x =~= y && r =~= s, _ => false }
}
pub open spec fn s_pre(done: Seq<(ScopeFieldType, Seq<u8>)>, x: Option<(Seq<(ScopeFieldType, Seq<u8>)>, Seq<u8>)>) -> Option<(Seq<(ScopeFieldType, Seq<u8>)>, Seq<u8>)> {
    match x { None => None, Some((vs, r)) => Some((done + vs, r)) }
}
proof fn lemma_scope_step(fields: Seq<&OptionsTemplateScopeField>, b: Seq<u8>, done: Seq<(ScopeFieldType, Seq<u8>)>)
    requires fields.len() > 0, sdf_step(*fields[0], b) is Some, sdf_step(*fields[0], b)->Some_0.1.len() != b.len(),
    ensures s_eq(s_pre(done, scope_spec(fields, b)), s_pre(done.push(sdf_step(*fields[0], b)->Some_0.0), scope_spec(fields.drop_first(), sdf_step(*fields[0], b)->Some_0.1))),
{
    let s = sdf_step(*fields[0], b)->Some_0;
    let x = scope_spec(fields.drop_first(), s.1);
    if x is Some { assert(done + (seq![s.0] + x->Some_0.0) =~= done.push(s.0) + x->Some_0.0); }
}
pub open spec fn o_eq(a: Option<(Seq<(V9Field, Seq<u8>)>, Seq<u8>)>, b: Option<(Seq<(V9Field, Seq<u8>)>, Seq<u8>)>) -> bool {
    match (a, b) { (None, None) => true, (Some((x, r)), Some((y, s))) => x =~= y && r =~= s, _ => false }
}
pub open spec fn o_pre(done: Seq<(V9Field, Seq<u8>)>, x: Option<(Seq<(V9Field, Seq<u8>)>, Seq<u8>)>) -> Option<(Seq<(V9Field, Seq<u8>)>, Seq<u8>)> {
    match x { None => None, Some((vs, r)) => Some((done + vs, r)) }
}
proof fn lemma_opts_step(fields: Seq<&TemplateField>, b: Seq<u8>, done: Seq<(V9Field, Seq<u8>)>)
    requires fields.len() > 0, odf_step(*fields[0], b) is Some, odf_step(*fields[0], b)->Some_0.1.len() != b.len(),
    ensures o_eq(o_pre(done, opts_spec(fields, b)), o_pre(done.push(odf_step(*fields[0], b)->Some_0.0), opts_spec(fields.drop_first(), odf_step(*fields[0], b)->Some_0.1))),
{
    let s = odf_step(*fields[0], b)->Some_0;
    let x = opts_spec(fields.drop_first(), s.1);
    if x is Some { assert(done + (seq![s.0] + x->Some_0.0) =~= done.push(s.0) + x->Some_0.0); }
}

// ---- scope loop
//@ fn lifted:v9_od_scope - /-/ vf_v9_od_scope__elem
//@   result: r
//@   ensures: sc_elem_post((*old(field)).remaining(), (*final(field)).remaining(), i, r)
//@ end
//@ fn lifted:v9_od_scope - /-/ vf_v9_od_scope__complete
//@   result: r
//@   ensures: sc_elem_post((*old(field)).remaining(), (*final(field)).remaining(), input, r)
//@ end
//@ fn lifted:v9_od_scope - /-/ vf_v9_od_scope__many0
//@   result: r
//@   ensures: match scope_spec((*old(field)).remaining(), i__in@) {
//@           None => r is Err,
//@           Some((vals, rest)) => r is Ok && sviews_ok(r->Ok_0.1@, vals) && r->Ok_0.0@ =~= rest }
//@   beforeloop 0: let ghost rem0 = field.remaining(); let ghost mut done = Seq::<(ScopeFieldType, Seq<u8>)>::empty();
//@       proof { assert(done + scope_spec(rem0, i__in@)->Some_0.0 =~= scope_spec(rem0, i__in@)->Some_0.0); }
//@   loop 0: invariant rem0 == (*old(field)).remaining(), sviews_ok(acc@, done),
//@           s_eq(s_pre(done, scope_spec(field.remaining(), i@)), scope_spec(rem0, i__in@)),
//@       decreases i@.len()
//@   loopstart 0: let ghost remk = field.remaining(); let ghost ik = i@;
//@   loopend 0: proof {
//@       lemma_scope_step(remk, ik, done);
//@       done = done.push((kind_of(acc@.last()), scope_bytes(acc@.last())));
//@       assert(sdf_step(*remk[0], ik)->Some_0.0.0 == kind_of(acc@.last()) && sdf_step(*remk[0], ik)->Some_0.0.1 =~= scope_bytes(acc@.last()));
//@   }
//@ end

// ---- option-field loop
impl OptionDataField {
//@ fn expanded variable_versions::v9 /impl<'nom> OptionDataField/ parse_be
//@   result: r
//@   generics: <'nom>
//@   prerules: R9
//@   closure 0: - | -> (o: Vec<u8>) ensures o@ =~= i@
//@   before "let (i, field_value) =": broadcast use lemma_cloned_u8;
//@   ensures: odf_post(orig_i, *field, r, false)
//@ end
//@ fn expanded variable_versions::v9 /impl<'nom> OptionDataField/ parse
//@   result: r
//@   generics: <'nom>
//@   contract: stubs/v9_optiondatafield_parse.rs
//@ end
}
//@ fn lifted:v9_od_opts - /-/ vf_v9_od_opts__elem
//@   result: r
//@   ensures: op_elem_post((*old(field)).remaining(), (*final(field)).remaining(), i, r, false)
//@ end
//@ fn lifted:v9_od_opts - /-/ vf_v9_od_opts__complete
//@   result: r
//@   ensures: op_elem_post((*old(field)).remaining(), (*final(field)).remaining(), input, r, true)
//@ end
//@ fn lifted:v9_od_opts - /-/ vf_v9_od_opts__many0
//@   result: r
//@   ensures: match opts_spec((*old(field)).remaining(), i__in@) {
//@           None => r is Err,
//@           Some((vals, rest)) => r is Ok && oviews_ok(r->Ok_0.1@, vals) && r->Ok_0.0@ =~= rest }
//@   beforeloop 0: let ghost rem0 = field.remaining(); let ghost mut done = Seq::<(V9Field, Seq<u8>)>::empty();
//@       proof { assert(done + opts_spec(rem0, i__in@)->Some_0.0 =~= opts_spec(rem0, i__in@)->Some_0.0); }
//@   loop 0: invariant rem0 == (*old(field)).remaining(), oviews_ok(acc@, done),
//@           o_eq(o_pre(done, opts_spec(field.remaining(), i@)), opts_spec(rem0, i__in@)),
//@       decreases i@.len()
//@   loopstart 0: let ghost remk = field.remaining(); let ghost ik = i@;
//@   loopend 0: proof {
//@       lemma_opts_step(remk, ik, done);
//@       done = done.push((acc@.last().field_type, acc@.last().field_value@));
//@       assert(odf_step(*remk[0], ik)->Some_0.0.0 == acc@.last().field_type && odf_step(*remk[0], ik)->Some_0.0.1 =~= acc@.last().field_value@);
//@   }
//@ end

/// the options template that governs an options data flowset with this id: the cached one, else one without fields
pub open spec fn od_fields(p: V9Parser, id: u16) -> (Seq<OptionsTemplateScopeField>, Seq<TemplateField>) {
    if p.options_templates@.contains_key(id) { (p.options_templates@[id].scope_fields@, p.options_templates@[id].option_fields@) }
    else { (Seq::<OptionsTemplateScopeField>::empty(), Seq::<TemplateField>::empty()) }
}
pub open spec fn optionsdata_post<'a>(old_p: V9Parser, new_p: V9Parser, b: &'a [u8], id: u16, r: IResult<&'a [u8], OptionsData>) -> bool {
    &&& new_p == old_p
    &&& match scope_spec(refs(od_fields(old_p, id).0), b@) {
        None => r is Err,
        Some((sv, b1)) => match opts_spec(refs(od_fields(old_p, id).1), b1) {
            None => r is Err,
            Some((ov, b2)) => r is Ok && sviews_ok(r->Ok_0.1.scope_fields@, sv) && oviews_ok(r->Ok_0.1.options_fields@, ov)
                && r->Ok_0.1.padding@ =~= b2 && r->Ok_0.0@.len() == 0,      // ONE record; the rest is padding
        },
    }
}
impl OptionsData {
//@ fn expanded variable_versions::v9 /impl<'nom> OptionsData/ parse_be
//@   result: r
//@   generics: <'nom>
//@   r17call 0: vf_v9_od_scope__many0(i, &mut field)
//@   r17call 1: vf_v9_od_opts__many0(i, &mut field)
//@   rules: R7
//@   ensures: optionsdata_post(*old(parser), *final(parser), orig_i, flowset_id, r)
//@ end
//@ fn expanded variable_versions::v9 /impl<'nom> OptionsData/ parse
//@   result: r
//@   generics: <'nom>
//@   contract: stubs/v9_optionsdata_parse.rs
//@   ensures: optionsdata_post(*old(parser), *final(parser), orig_i, flowset_id, r)
//@ end
}
} // verus!
fn main() {}
