// UNIT v9.to_be_bytes -- V9::to_be_bytes, verbatim from src/variable_versions/v9.rs:539-623.  C09: the re-export is
// the packet header followed, flowset by flowset, by the flowset header and the body as received: every template
// record (id, count, each field's type NUMBER and length), every options-template record, the scope and option
// values of options data, and the padding of every kind of flowset.  The per-record loop of a data flowset
// (BTreeMap iteration; values re-encoded by FieldValue::to_be_bytes: K.rt.*) is a contracted stub (R5).
//@ include prelude.rs
verus! {
//@ type src/variable_versions/v9_lookup.rs - V9Field
//@ type src/variable_versions/v9_lookup.rs - ScopeFieldType
#[verifier::external_body] pub struct FieldValue { _p: () }
#[verifier::external_body] pub struct VfError { _p: () }
//@ alias src/variable_versions/v9.rs - V9FieldPair
//@ type src/variable_versions/v9.rs - V9
//@ type src/variable_versions/v9.rs - Header
//@ type src/variable_versions/v9.rs - FlowSet
//@ type src/variable_versions/v9.rs - FlowSetHeader
//@ type src/variable_versions/v9.rs - FlowSetBody
//@ type src/variable_versions/v9.rs - Templates
//@ type src/variable_versions/v9.rs - OptionsTemplates
//@ type src/variable_versions/v9.rs - Template
//@ type src/variable_versions/v9.rs - OptionsTemplate
//@ type src/variable_versions/v9.rs - TemplateField
//@ type src/variable_versions/v9.rs - OptionsTemplateScopeField
//@ type src/variable_versions/v9.rs - Data
//@ type src/variable_versions/v9.rs - OptionsData
//@ type src/variable_versions/v9.rs - ScopeDataField
//@ type src/variable_versions/v9.rs - OptionDataField
}
//@ layout v9 +append
verus! {
pub type VfPair = V9FieldPair;
}
//@ include records_enc_spec.rs
verus! {
pub type Records = Vec<BTreeMap<usize, V9FieldPair>>;
/// wire image of the records of a data flowset (V.v9.export_records)
pub open spec fn v9_records_enc(s: Seq<BTreeMap<usize, V9FieldPair>>) -> Seq<u8> { recs_enc(s, s.len() as int) }
// R5 stub for the data-record loop; its contract is discharged by V.v9.export_records on the loop itself
//@ stub stubs/v9_export_records.rs

pub open spec fn tf_enc(f: TemplateField) -> Seq<u8> { enc16(f.field_type_number) + enc16(f.field_length) }
pub open spec fn sf_enc(f: OptionsTemplateScopeField) -> Seq<u8> { enc16(f.field_type_number) + enc16(f.field_length) }
pub open spec fn tfs_enc(s: Seq<TemplateField>) -> Seq<u8> decreases s.len() {
    if s.len() == 0 { Seq::<u8>::empty() } else { tfs_enc(s.drop_last()) + tf_enc(s.last()) } }
pub open spec fn sfs_enc(s: Seq<OptionsTemplateScopeField>) -> Seq<u8> decreases s.len() {
    if s.len() == 0 { Seq::<u8>::empty() } else { sfs_enc(s.drop_last()) + sf_enc(s.last()) } }
pub open spec fn tpl_enc(t: Template) -> Seq<u8> { enc16(t.template_id) + enc16(t.field_count) + tfs_enc(t.fields@) }
pub open spec fn tpls_enc(s: Seq<Template>) -> Seq<u8> decreases s.len() {
    if s.len() == 0 { Seq::<u8>::empty() } else { tpls_enc(s.drop_last()) + tpl_enc(s.last()) } }
pub open spec fn otpl_enc(t: OptionsTemplate) -> Seq<u8> {
    enc16(t.template_id) + enc16(t.options_scope_length) + enc16(t.options_length) + sfs_enc(t.scope_fields@) + tfs_enc(t.option_fields@) }
pub open spec fn otpls_enc(s: Seq<OptionsTemplate>) -> Seq<u8> decreases s.len() {
    if s.len() == 0 { Seq::<u8>::empty() } else { otpls_enc(s.drop_last()) + otpl_enc(s.last()) } }
pub open spec fn scope_bytes(f: ScopeDataField) -> Seq<u8> {
    match f { ScopeDataField::System(v) => v@, ScopeDataField::Interface(v) => v@, ScopeDataField::LineCard(v) => v@,
              ScopeDataField::NetFlowCache(v) => v@, ScopeDataField::Template(v) => v@ } }
pub open spec fn scopes_enc(s: Seq<ScopeDataField>) -> Seq<u8> decreases s.len() {
    if s.len() == 0 { Seq::<u8>::empty() } else { scopes_enc(s.drop_last()) + scope_bytes(s.last()) } }
pub open spec fn optvals_enc(s: Seq<OptionDataField>) -> Seq<u8> decreases s.len() {
    if s.len() == 0 { Seq::<u8>::empty() } else { optvals_enc(s.drop_last()) + s.last().field_value@ } }
pub open spec fn body_enc(b: FlowSetBody) -> Seq<u8> {
    match b {
        FlowSetBody::Template(t) => tpls_enc(t.templates@) + t.padding@,
        FlowSetBody::OptionsTemplate(o) => otpls_enc(o.templates@) + o.padding@,
        FlowSetBody::Data(d) => v9_records_enc(d.fields@) + d.padding@,
        FlowSetBody::OptionsData(o) => scopes_enc(o.scope_fields@) + optvals_enc(o.options_fields@) + o.padding@,
    }
}
pub open spec fn fs_enc(f: FlowSet) -> Seq<u8> { enc16(f.header.flowset_id) + enc16(f.header.length) + body_enc(f.body) }
pub open spec fn fss_enc(s: Seq<FlowSet>) -> Seq<u8> decreases s.len() {
    if s.len() == 0 { Seq::<u8>::empty() } else { fss_enc(s.drop_last()) + fs_enc(s.last()) } }
pub open spec fn v9_packet_enc(p: V9) -> Seq<u8> { v9_header_enc(p.header) + fss_enc(p.flowsets@) }

pub proof fn lemma_take_step<T>(s: Seq<T>, k: int)
    requires 0 <= k < s.len(),
    ensures s.take(k + 1).drop_last() == s.take(k), s.take(k + 1).last() == s[k],
{
    assert(s.take(k + 1).drop_last() =~= s.take(k));
}
pub proof fn lemma_take_all<T>(s: Seq<T>) ensures s.take(s.len() as int) == s { assert(s.take(s.len() as int) =~= s); }

impl V9 {
//@ fn src/variable_versions/v9.rs - /impl V9/ to_be_bytes
//@   result: r
//@   rules: R1 R12
//@   ensures: r is Ok ==> r->Ok_0@ == v9_packet_enc(*self)
//@   beforefor 0: proof {
//@       lemma_v9_header_enc_append(Seq::<u8>::empty(), self.header);
//@       assert(result@ =~= v9_header_enc(self.header));
//@   }
//@   forloop 0: it | invariant result@ == v9_header_enc(self.header) + fss_enc(self.flowsets@.take(it.index@ as int)), it.index@ <= self.flowsets@.len()
//@   forstart 0: let ghost b0 = result@;
//@   before "if let FlowSetBody::Template(templates) = &set.body": let ghost b1 = result@;
//@   forloop 1: it1 | invariant result@ == b1 + tpls_enc(templates.templates@.take(it1.index@ as int)), it1.index@ <= templates.templates@.len()
//@   forstart 1: let ghost b2 = result@;
//@   forloop 2: it2 | invariant result@ == b2 + enc16(template.template_id) + enc16(template.field_count) + tfs_enc(template.fields@.take(it2.index@ as int)), it2.index@ <= template.fields@.len()
//@   forend 2: proof { lemma_take_step(template.fields@, it2.index@ as int); assert(*field == template.fields@[it2.index@ as int]);
//@       assert(result@ =~= b2 + enc16(template.template_id) + enc16(template.field_count) + (tfs_enc(template.fields@.take(it2.index@ as int)) + tf_enc(*field))); }
//@   forend 1: proof { lemma_take_all(template.fields@); lemma_take_step(templates.templates@, it1.index@ as int);
//@       assert(*template == templates.templates@[it1.index@ as int]);
//@       assert(result@ =~= b1 + (tpls_enc(templates.templates@.take(it1.index@ as int)) + tpl_enc(*template))); }
//@   after "result.extend_from_slice(&templates.padding);": proof { lemma_take_all(templates.templates@); }
//@   beforefor 3: let ghost c1 = result@;
//@   forloop 3: it3 | invariant result@ == c1 + otpls_enc(options_templates.templates@.take(it3.index@ as int)), it3.index@ <= options_templates.templates@.len()
//@   forstart 3: let ghost c2 = result@;
//@   forloop 4: it4 | invariant result@ == c2 + enc16(template.template_id) + enc16(template.options_scope_length) + enc16(template.options_length) + sfs_enc(template.scope_fields@.take(it4.index@ as int)), it4.index@ <= template.scope_fields@.len()
//@   forend 4: proof { lemma_take_step(template.scope_fields@, it4.index@ as int); assert(*field == template.scope_fields@[it4.index@ as int]);
//@       assert(result@ =~= c2 + enc16(template.template_id) + enc16(template.options_scope_length) + enc16(template.options_length) + (sfs_enc(template.scope_fields@.take(it4.index@ as int)) + sf_enc(*field))); }
//@   beforefor 5: let ghost c3 = result@; proof { lemma_take_all(template.scope_fields@); }
//@   forloop 5: it5 | invariant result@ == c3 + tfs_enc(template.option_fields@.take(it5.index@ as int)), it5.index@ <= template.option_fields@.len()
//@   forend 5: proof { lemma_take_step(template.option_fields@, it5.index@ as int); assert(*field == template.option_fields@[it5.index@ as int]);
//@       assert(result@ =~= c3 + (tfs_enc(template.option_fields@.take(it5.index@ as int)) + tf_enc(*field))); }
//@   forend 3: proof { lemma_take_all(template.option_fields@); lemma_take_step(options_templates.templates@, it3.index@ as int);
//@       assert(*template == options_templates.templates@[it3.index@ as int]);
//@       assert(result@ =~= c1 + (otpls_enc(options_templates.templates@.take(it3.index@ as int)) + otpl_enc(*template))); }
//@   after "result.extend_from_slice(&options_templates.padding);": proof { lemma_take_all(options_templates.templates@); }
//@   opaque "for data_field in data.fields.iter()": vf_export_records(&mut result, data)?;
//@   beforefor 8: let ghost d1 = result@;
//@   forloop 8: it8 | invariant result@ == d1 + scopes_enc(options_data.scope_fields@.take(it8.index@ as int)), it8.index@ <= options_data.scope_fields@.len()
//@   forend 8: proof { lemma_take_step(options_data.scope_fields@, it8.index@ as int); assert(*scope_field == options_data.scope_fields@[it8.index@ as int]);
//@       assert(result@ =~= d1 + (scopes_enc(options_data.scope_fields@.take(it8.index@ as int)) + scope_bytes(*scope_field))); }
//@   beforefor 9: let ghost d2 = result@; proof { lemma_take_all(options_data.scope_fields@); }
//@   forloop 9: it9 | invariant result@ == d2 + optvals_enc(options_data.options_fields@.take(it9.index@ as int)), it9.index@ <= options_data.options_fields@.len()
//@   forend 9: proof { lemma_take_step(options_data.options_fields@, it9.index@ as int); assert(*option_field == options_data.options_fields@[it9.index@ as int]);
//@       assert(result@ =~= d2 + (optvals_enc(options_data.options_fields@.take(it9.index@ as int)) + option_field.field_value@)); }
//@   after "result.extend_from_slice(&options_data.padding);": proof { lemma_take_all(options_data.options_fields@); }
//@   forend 0: proof {
//@       assert(b1 =~= b0 + enc16(set.header.flowset_id) + enc16(set.header.length));
//@       assert(result@ =~= b0 + (enc16(set.header.flowset_id) + enc16(set.header.length) + body_enc(set.body)));
//@       lemma_take_step(self.flowsets@, it.index@ as int);
//@       assert(*set == self.flowsets@[it.index@ as int]);
//@       assert(result@ =~= v9_header_enc(self.header) + (fss_enc(self.flowsets@.take(it.index@ as int)) + fs_enc(*set)));
//@   }
//@   before "Ok(result)": proof { lemma_take_all(self.flowsets@); }
//@ end
}
} // verus!
fn main() {}
