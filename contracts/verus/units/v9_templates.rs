// UNIT v9.templates -- nom-derive expansions of the V9 header, flowset header, field specifiers,
// Template (id, count, count x (type, length)) and OptionsTemplate (scope_len/4 scope fields then
// opt_len/4 option fields), src/variable_versions/v9.rs:61-275.  C04: "each template and
// options-template record is reported with the id, field types and field lengths that were sent",
// for EVERY field count.
//@ include prelude.rs
verus! {
#[verifier::external_body] #[derive(Clone, Copy)] pub struct V9Field { _p: () }
#[verifier::external_body] #[derive(Clone, Copy)] pub struct ScopeFieldType { _p: () }
pub uninterp spec fn v9field_of(n: u16) -> V9Field;
pub uninterp spec fn scopetype_of(n: u16) -> ScopeFieldType;
impl V9Field {
    // From<u16> for V9Field: lookup table (not under contract here)
    #[verifier::external_body] pub fn from(item: u16) -> (r: V9Field) ensures r == v9field_of(item) { unimplemented!() }
}
impl ScopeFieldType {
    #[verifier::external_body] pub fn from(item: u16) -> (r: ScopeFieldType) ensures r == scopetype_of(item) { unimplemented!() }
}
//@ type src/variable_versions/v9.rs - Header
//@ type src/variable_versions/v9.rs - FlowSetHeader
//@ type src/variable_versions/v9.rs - Template
//@ type src/variable_versions/v9.rs - OptionsTemplate
//@ type src/variable_versions/v9.rs - TemplateField
//@ type src/variable_versions/v9.rs - OptionsTemplateScopeField
}
//@ layout v9
verus! {
/// RFC 3954 field specifier: type (2), length (2)
pub open spec fn tf_dec(b: Seq<u8>, o: int) -> TemplateField {
    TemplateField { field_type_number: be16(b, o), field_type: v9field_of(be16(b, o)), field_length: be16(b, o + 2) }
}
pub open spec fn sf_dec(b: Seq<u8>, o: int) -> OptionsTemplateScopeField {
    OptionsTemplateScopeField { field_type_number: be16(b, o), field_type: scopetype_of(be16(b, o)), field_length: be16(b, o + 2) }
}
proof fn lemma_tf_shift(b: Seq<u8>, o: int) requires 0 <= o, o + 4 <= b.len() ensures tf_dec(b.subrange(o, b.len() as int), 0) == tf_dec(b, o) {}
proof fn lemma_sf_shift(b: Seq<u8>, o: int) requires 0 <= o, o + 4 <= b.len() ensures sf_dec(b.subrange(o, b.len() as int), 0) == sf_dec(b, o) {}

/// a template record: id, field count n, then exactly n field specifiers
pub open spec fn template_post<'a>(b: &'a [u8], r: IResult<&'a [u8], Template>) -> bool {
    if b@.len() < 4 || b@.len() < 4 + 4 * (be16(b@, 2) as int) {
        r is Err
    } else {
        let n = be16(b@, 2) as int;
        &&& r is Ok
        &&& r->Ok_0.0@ == b@.subrange(4 + 4 * n, b@.len() as int)
        &&& r->Ok_0.1.template_id == be16(b@, 0) && r->Ok_0.1.field_count == be16(b@, 2)
        &&& r->Ok_0.1.fields@.len() == n
        &&& forall|k: int| 0 <= k < n ==> #[trigger] r->Ok_0.1.fields@[k] == tf_dec(b@, 4 + 4 * k)
    }
}
/// an options-template record: id, scope length, option length, then scope_len/4 scope field specifiers
/// followed by opt_len/4 option field specifiers (RFC 3954 section 6.1)
pub open spec fn options_template_post<'a>(b: &'a [u8], r: IResult<&'a [u8], OptionsTemplate>) -> bool {
    if b@.len() < 6 || b@.len() < 6 + 4 * ((be16(b@, 2) / 4) as int) + 4 * ((be16(b@, 4) / 4) as int) {
        r is Err
    } else {
        let n1 = (be16(b@, 2) / 4) as int;
        let n2 = (be16(b@, 4) / 4) as int;
        &&& r is Ok
        &&& r->Ok_0.0@ == b@.subrange(6 + 4 * n1 + 4 * n2, b@.len() as int)
        &&& r->Ok_0.1.template_id == be16(b@, 0)
        &&& r->Ok_0.1.options_scope_length == be16(b@, 2) && r->Ok_0.1.options_length == be16(b@, 4)
        &&& r->Ok_0.1.scope_fields@.len() == n1 && r->Ok_0.1.option_fields@.len() == n2
        &&& forall|k: int| 0 <= k < n1 ==> #[trigger] r->Ok_0.1.scope_fields@[k] == sf_dec(b@, 6 + 4 * k)
        &&& forall|k: int| 0 <= k < n2 ==> #[trigger] r->Ok_0.1.option_fields@[k] == tf_dec(b@, 6 + 4 * n1 + 4 * k)
    }
}
}
//@ include count_fixed_lemma.rs NAME=tf T=TemplateField F=TemplateField::parse W=4 DEC=tf_dec
//@ include count_fixed_lemma.rs NAME=sf T=OptionsTemplateScopeField F=OptionsTemplateScopeField::parse W=4 DEC=sf_dec
verus! {

impl Header {
//@ fn expanded variable_versions::v9 /impl<'nom> nom_derive::Parse<.*> for Header/ parse_be
//@   result: r
//@   generics: <'nom>
//@   rules: R7 R9
//@   track: orig_i
//@   before "let i = orig_i;": proof { reveal(v9_header_dec); }
//@   ensures: fixed_post(orig_i, r, 18)
//@   ensures: r is Ok ==> r->Ok_0.1 == v9_header_dec(orig_i@, 0)
//@ end
}
impl FlowSetHeader {
//@ fn expanded variable_versions::v9 /impl<'nom> nom_derive::Parse<.*> for FlowSetHeader/ parse_be
//@   result: r
//@   generics: <'nom>
//@   rules: R7 R9
//@   track: orig_i
//@   before "let i = orig_i;": proof { reveal(v9_flowset_header_dec); }
//@   ensures: fixed_post(orig_i, r, 4)
//@   ensures: r is Ok ==> r->Ok_0.1 == v9_flowset_header_dec(orig_i@, 0)
//@ end
}
impl TemplateField {
//@ fn expanded variable_versions::v9 /impl<'nom> nom_derive::Parse<.*> for TemplateField/ parse_be
//@   result: r
//@   generics: <'nom>
//@   rules: R7 R9
//@   track: orig_i
//@   ensures: fixed_post(orig_i, r, 4)
//@   ensures: r is Ok ==> r->Ok_0.1 == tf_dec(orig_i@, 0)
//@ end
//@ fn expanded variable_versions::v9 /impl<'nom> nom_derive::Parse<.*> for TemplateField/ parse
//@   result: r
//@   generics: <'nom>
//@   ensures: fixed_post(orig_i, r, 4)
//@   ensures: r is Ok ==> r->Ok_0.1 == tf_dec(orig_i@, 0)
//@ end
}
impl OptionsTemplateScopeField {
//@ fn expanded variable_versions::v9 /impl<'nom> nom_derive::Parse<.*> for OptionsTemplateScopeField/ parse_be
//@   result: r
//@   generics: <'nom>
//@   rules: R7 R9
//@   track: orig_i
//@   ensures: fixed_post(orig_i, r, 4)
//@   ensures: r is Ok ==> r->Ok_0.1 == sf_dec(orig_i@, 0)
//@ end
//@ fn expanded variable_versions::v9 /impl<'nom> nom_derive::Parse<.*> for OptionsTemplateScopeField/ parse
//@   result: r
//@   generics: <'nom>
//@   ensures: fixed_post(orig_i, r, 4)
//@   ensures: r is Ok ==> r->Ok_0.1 == sf_dec(orig_i@, 0)
//@ end
}
impl Template {
//@ fn expanded variable_versions::v9 /impl<'nom> nom_derive::Parse<.*> for Template/ parse_be
//@   result: r
//@   generics: <'nom>
//@   rules: R7
//@   track: orig_i
//@   ensures: template_post(orig_i, r)
//@   before "let (i, fields) =": proof {
//@       assert forall|k: int, ins: Seq<&'nom [u8]>, vals: Seq<TemplateField>|
//@           0 <= k && #[trigger] nom_c::count_ok(TemplateField::parse, k, ins, vals) && ins[0] == i
//@           implies tf_chain_facts(orig_i@, 4, k, ins, vals) by { lemma_tf_chain(orig_i@, 4, k, ins, vals); }
//@   }
//@ end
//@ fn expanded variable_versions::v9 /impl<'nom> nom_derive::Parse<.*> for Template/ parse
//@   result: r
//@   generics: <'nom>
//@   ensures: template_post(orig_i, r)
//@ end
}
impl OptionsTemplate {
//@ fn expanded variable_versions::v9 /impl<'nom> nom_derive::Parse<.*> for OptionsTemplate/ parse_be
//@   result: r
//@   generics: <'nom>
//@   rules: R7
//@   track: orig_i
//@   ensures: options_template_post(orig_i, r)
//@   before "let (i, scope_fields) =": let ghost i1 = i; proof {
//@       assert forall|k: int, ins: Seq<&'nom [u8]>, vals: Seq<OptionsTemplateScopeField>|
//@           0 <= k && #[trigger] nom_c::count_ok(OptionsTemplateScopeField::parse, k, ins, vals) && ins[0] == i
//@           implies sf_chain_facts(orig_i@, 6, k, ins, vals) by { lemma_sf_chain(orig_i@, 6, k, ins, vals); }
//@   }
//@   before "let (i, option_fields) =": proof {
//@       let n1 = (options_scope_length / 4) as int;
//@       assert(i@ == orig_i@.subrange(6 + 4 * n1, orig_i@.len() as int));
//@       assert forall|k: int, ins: Seq<&'nom [u8]>, vals: Seq<TemplateField>|
//@           0 <= k && #[trigger] nom_c::count_ok(TemplateField::parse, k, ins, vals) && ins[0] == i
//@           implies tf_chain_facts(orig_i@, 6 + 4 * n1, k, ins, vals) by { lemma_tf_chain(orig_i@, 6 + 4 * n1, k, ins, vals); }
//@   }
//@ end
//@ fn expanded variable_versions::v9 /impl<'nom> nom_derive::Parse<.*> for OptionsTemplate/ parse
//@   result: r
//@   generics: <'nom>
//@   ensures: options_template_post(orig_i, r)
//@ end
}

} // verus!
fn main() {}
