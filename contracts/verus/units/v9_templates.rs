// UNIT v9.templates -- nom-derive expansions of the V9 header, flowset header, field specifiers,
// Template (id, count, count x (type, length)) and OptionsTemplate (scope_len/4 scope fields then
// opt_len/4 option fields), src/variable_versions/v9.rs:61-275.  C04: "each template and
// options-template record is reported with the id, field types and field lengths that were sent",
// for EVERY field count.
//@ include prelude.rs
verus! {
#[verifier::external_body] #[derive(Clone, Copy)] pub struct V9Field { _p: () }
#[verifier::external_body] #[derive(Clone, Copy)] pub struct ScopeFieldType { _p: () }
pub uninterp spec fn v9field_of(n: u16) -> V9Field;
pub uninterp spec fn scopetype_of(n: u16) -> ScopeFieldType;
impl V9Field {
    // From<u16> for V9Field: lookup table (not under contract here)
    #[verifier::external_body] pub fn from(item: u16) -> (r: V9Field) ensures r == v9field_of(item) { unimplemented!() }
}
impl ScopeFieldType {
    #[verifier::external_body] pub fn from(item: u16) -> (r: ScopeFieldType) ensures r == scopetype_of(item) { unimplemented!() }
}
//@ type src/variable_versions/v9.rs - Header
//@ type src/variable_versions/v9.rs - FlowSetHeader
//@ type src/variable_versions/v9.rs - Template
//@ type src/variable_versions/v9.rs - OptionsTemplate
//@ type src/variable_versions/v9.rs - TemplateField
//@ type src/variable_versions/v9.rs - OptionsTemplateScopeField
//@ type src/variable_versions/v9.rs - Templates
}
//@ layout v9
verus! {
/// RFC 3954 field specifier: type (2), length (2)
pub open spec fn tf_dec(b: Seq<u8>, o: int) -> TemplateField {
    TemplateField { field_type_number: be16(b, o), field_type: v9field_of(be16(b, o)), field_length: be16(b, o + 2) }
}
pub open spec fn sf_dec(b: Seq<u8>, o: int) -> OptionsTemplateScopeField {
    OptionsTemplateScopeField { field_type_number: be16(b, o), field_type: scopetype_of(be16(b, o)), field_length: be16(b, o + 2) }
}
proof fn lemma_tf_shift(b: Seq<u8>, o: int) requires 0 <= o, o + 4 <= b.len() ensures tf_dec(b.subrange(o, b.len() as int), 0) == tf_dec(b, o) {}
proof fn lemma_sf_shift(b: Seq<u8>, o: int) requires 0 <= o, o + 4 <= b.len() ensures sf_dec(b.subrange(o, b.len() as int), 0) == sf_dec(b, o) {}

/// a template record: id, field count n, then exactly n field specifiers
pub open spec fn template_post<'a>(b: &'a [u8], r: IResult<&'a [u8], Template>) -> bool {
    if b@.len() < 4 || b@.len() < 4 + 4 * (be16(b@, 2) as int) {
        r is Err && r->Err_0 is Error
    } else {
        let n = be16(b@, 2) as int;
        &&& r is Ok
        &&& r->Ok_0.0@ == b@.subrange(4 + 4 * n, b@.len() as int)
        &&& r->Ok_0.1.template_id == be16(b@, 0) && r->Ok_0.1.field_count == be16(b@, 2)
        &&& r->Ok_0.1.fields@.len() == n
        &&& forall|k: int| 0 <= k < n ==> #[trigger] r->Ok_0.1.fields@[k] == tf_dec(b@, 4 + 4 * k)
    }
}
/// an options-template record: id, scope length, option length, then scope_len/4 scope field specifiers
/// followed by opt_len/4 option field specifiers (RFC 3954 section 6.1)
pub open spec fn options_template_post<'a>(b: &'a [u8], r: IResult<&'a [u8], OptionsTemplate>) -> bool {
    if b@.len() < 6 || b@.len() < 6 + 4 * ((be16(b@, 2) / 4) as int) + 4 * ((be16(b@, 4) / 4) as int) {
        r is Err
    } else {
        let n1 = (be16(b@, 2) / 4) as int;
        let n2 = (be16(b@, 4) / 4) as int;
        &&& r is Ok
        &&& r->Ok_0.0@ == b@.subrange(6 + 4 * n1 + 4 * n2, b@.len() as int)
        &&& r->Ok_0.1.template_id == be16(b@, 0)
        &&& r->Ok_0.1.options_scope_length == be16(b@, 2) && r->Ok_0.1.options_length == be16(b@, 4)
        &&& r->Ok_0.1.scope_fields@.len() == n1 && r->Ok_0.1.option_fields@.len() == n2
        &&& forall|k: int| 0 <= k < n1 ==> #[trigger] r->Ok_0.1.scope_fields@[k] == sf_dec(b@, 6 + 4 * k)
        &&& forall|k: int| 0 <= k < n2 ==> #[trigger] r->Ok_0.1.option_fields@[k] == tf_dec(b@, 6 + 4 * n1 + 4 * k)
    }
}
}
//@ include count_fixed_lemma.rs NAME=tf T=TemplateField F=TemplateField::parse W=4 DEC=tf_dec
//@ include count_fixed_lemma.rs NAME=sf T=OptionsTemplateScopeField F=OptionsTemplateScopeField::parse W=4 DEC=sf_dec
verus! {

// ---- a template flowset body: template records one after the other, the rest is padding (RFC 3954 5.2)
/// size of the template record at offset o (4 + 4 * field_count), None if it does not fit
pub open spec fn tpl_size(b: Seq<u8>, o: int) -> Option<int> {
    if o < 0 || o + 4 > b.len() { None } else if o + 4 + 4 * (be16(b, o + 2) as int) > b.len() { None }
    else { Some(4 + 4 * (be16(b, o + 2) as int)) }
}
/// t is the template record found at offset o of b
pub open spec fn tpl_matches(t: Template, b: Seq<u8>, o: int) -> bool {
    &&& t.template_id == be16(b, o) && t.field_count == be16(b, o + 2)
    &&& t.fields@.len() == be16(b, o + 2) as int
    &&& forall|k: int| 0 <= k < t.fields@.len() ==> #[trigger] t.fields@[k] == tf_dec(b, o + 4 + 4 * k)
}
/// ts are the records found back to back from offset o
pub open spec fn tpls_match(ts: Seq<Template>, b: Seq<u8>, o: int) -> bool decreases ts.len() {
    ts.len() == 0 || (tpl_size(b, o) is Some && tpl_matches(ts[0], b, o) && tpls_match(ts.drop_first(), b, o + tpl_size(b, o)->0))
}
pub open spec fn tpls_walk(b: Seq<u8>, o: int, k: int) -> Option<int> decreases k {
    if k <= 0 { Some(o) } else { match tpl_size(b, o) { None => None, Some(w) => tpls_walk(b, o + w, k - 1) } }
}
/// number of records that fit back to back from o, and where they end (what the decoder consumes as templates)
pub open spec fn tpls_count(b: Seq<u8>, o: int) -> int decreases b.len() - o {
    match tpl_size(b, o) { None => 0, Some(w) => 1 + tpls_count(b, o + w) }
}
pub open spec fn tpls_end(b: Seq<u8>, o: int) -> int decreases b.len() - o {
    match tpl_size(b, o) { None => o, Some(w) => tpls_end(b, o + w) }
}
proof fn lemma_template_at<'a>(b: Seq<u8>, o: int, i: &'a [u8], r: IResult<&'a [u8], Template>)
    requires 0 <= o <= b.len(), i@ == b.subrange(o, b.len() as int), template_post(i, r),
    ensures
        tpl_size(b, o) is None ==> r is Err && r->Err_0 is Error,
        tpl_size(b, o) is Some ==> r is Ok && r->Ok_0.0@ == b.subrange(o + tpl_size(b, o)->0, b.len() as int) && tpl_matches(r->Ok_0.1, b, o),
{
    if i@.len() >= 4 {
        assert(be16(i@, 0) == be16(b, o) && be16(i@, 2) == be16(b, o + 2));
        let n = be16(b, o + 2) as int;
        if i@.len() >= 4 + 4 * n {
            lemma_sub_sub2(b, o, b.len() as int, 4 + 4 * n, b.len() - o);
            let t = r->Ok_0.1;
            assert forall|k: int| 0 <= k < t.fields@.len() implies #[trigger] t.fields@[k] == tf_dec(b, o + 4 + 4 * k) by {
                assert(t.fields@[k] == tf_dec(i@, 4 + 4 * k));
            }
        }
    }
}
proof fn lemma_tpls_many<'a, F: Fn(&'a [u8]) -> IResult<&'a [u8], Template>>(h: F, b: Seq<u8>, o: int, k: int, ins: Seq<&'a [u8]>, vals: Seq<Template>)
    requires
        forall|i: &'a [u8], r: IResult<&'a [u8], Template>| #[trigger] h.ensures((i,), r) ==> template_post(i, r),
        0 <= k, 0 <= o <= b.len(),
        nom_c::count_ok(h, k, ins, vals), ins[0]@ == b.subrange(o, b.len() as int),
    ensures
        tpls_walk(b, o, k) is Some, o <= tpls_walk(b, o, k)->0 <= b.len(),
        ins[k]@ == b.subrange(tpls_walk(b, o, k)->0, b.len() as int),
        tpls_match(vals, b, o),
    decreases k,
{
    if k > 0 {
        assert(h.ensures((ins[0],), Ok((ins[1], vals[0]))));
        lemma_template_at(b, o, ins[0], Ok((ins[1], vals[0])));
        let w = tpl_size(b, o)->0;
        let ins1 = ins.drop_first();
        let vals1 = vals.drop_first();
        assert(nom_c::count_ok(h, k - 1, ins1, vals1)) by {
            assert forall|j: int| 0 <= j < k - 1 implies h.ensures((#[trigger] ins1[j],), Ok((ins1[j + 1], vals1[j]))) by {
                assert(ins1[j] == ins[j + 1]);
                assert(h.ensures((ins[j + 1],), Ok((ins[j + 2], vals[j + 1]))));
            }
        }
        lemma_tpls_many(h, b, o + w, k - 1, ins1, vals1);
        assert(ins1[k - 1] == ins[k]);
    }
}
proof fn lemma_tpls_walk_is_greedy(b: Seq<u8>, o: int, k: int)
    requires 0 <= k, 0 <= o <= b.len(), tpls_walk(b, o, k) is Some, tpl_size(b, tpls_walk(b, o, k)->0) is None,
    ensures tpls_count(b, o) == k, tpls_end(b, o) == tpls_walk(b, o, k)->0,
    decreases k,
{
    if k > 0 { lemma_tpls_walk_is_greedy(b, o + tpl_size(b, o)->0, k - 1); }
}
/// C04 for a template flowset body: every record that fits is reported, in order, with the id, count, field types
/// and lengths that were sent; the bytes after the last complete record are padding; nothing is left over
pub open spec fn templates_post<'a>(b: &'a [u8], r: IResult<&'a [u8], Templates>) -> bool {
    &&& r is Ok
    &&& r->Ok_0.0@.len() == 0
    &&& r->Ok_0.1.templates@.len() == tpls_count(b@, 0)
    &&& tpls_match(r->Ok_0.1.templates@, b@, 0)
    &&& r->Ok_0.1.padding@ == b@.subrange(tpls_end(b@, 0), b@.len() as int)
}

impl Header {
//@ fn expanded variable_versions::v9 /impl<'nom> nom_derive::Parse<.*> for Header/ parse_be
//@   result: r
//@   generics: <'nom>
//@   rules: R7 R9
//@   track: orig_i
//@   before "let i = orig_i;": proof { reveal(v9_header_dec); }
//@   ensures: fixed_post(orig_i, r, 18)
//@   ensures: r is Ok ==> r->Ok_0.1 == v9_header_dec(orig_i@, 0)
//@ end
}
impl FlowSetHeader {
//@ fn expanded variable_versions::v9 /impl<'nom> nom_derive::Parse<.*> for FlowSetHeader/ parse_be
//@   result: r
//@   generics: <'nom>
//@   rules: R7 R9
//@   track: orig_i
//@   before "let i = orig_i;": proof { reveal(v9_flowset_header_dec); }
//@   ensures: fixed_post(orig_i, r, 4)
//@   ensures: r is Ok ==> r->Ok_0.1 == v9_flowset_header_dec(orig_i@, 0)
//@ end
}
impl TemplateField {
//@ fn expanded variable_versions::v9 /impl<'nom> nom_derive::Parse<.*> for TemplateField/ parse_be
//@   result: r
//@   generics: <'nom>
//@   rules: R7 R9
//@   track: orig_i
//@   ensures: fixed_post(orig_i, r, 4)
//@   ensures: r is Ok ==> r->Ok_0.1 == tf_dec(orig_i@, 0)
//@ end
//@ fn expanded variable_versions::v9 /impl<'nom> nom_derive::Parse<.*> for TemplateField/ parse
//@   result: r
//@   generics: <'nom>
//@   ensures: fixed_post(orig_i, r, 4)
//@   ensures: r is Ok ==> r->Ok_0.1 == tf_dec(orig_i@, 0)
//@ end
}
impl OptionsTemplateScopeField {
//@ fn expanded variable_versions::v9 /impl<'nom> nom_derive::Parse<.*> for OptionsTemplateScopeField/ parse_be
//@   result: r
//@   generics: <'nom>
//@   rules: R7 R9
//@   track: orig_i
//@   ensures: fixed_post(orig_i, r, 4)
//@   ensures: r is Ok ==> r->Ok_0.1 == sf_dec(orig_i@, 0)
//@ end
//@ fn expanded variable_versions::v9 /impl<'nom> nom_derive::Parse<.*> for OptionsTemplateScopeField/ parse
//@   result: r
//@   generics: <'nom>
//@   ensures: fixed_post(orig_i, r, 4)
//@   ensures: r is Ok ==> r->Ok_0.1 == sf_dec(orig_i@, 0)
//@ end
}
impl Template {
//@ fn expanded variable_versions::v9 /impl<'nom> nom_derive::Parse<.*> for Template/ parse_be
//@   result: r
//@   generics: <'nom>
//@   rules: R7
//@   track: orig_i
//@   ensures: template_post(orig_i, r)
//@   before "let (i, fields) =": proof {
//@       assert forall|k: int, ins: Seq<&'nom [u8]>, vals: Seq<TemplateField>|
//@           0 <= k && #[trigger] nom_c::count_ok(TemplateField::parse, k, ins, vals) && ins[0] == i
//@           implies tf_chain_facts(orig_i@, 4, k, ins, vals) by { lemma_tf_chain(orig_i@, 4, k, ins, vals); }
//@   }
//@ end
//@ fn expanded variable_versions::v9 /impl<'nom> nom_derive::Parse<.*> for Template/ parse
//@   result: r
//@   generics: <'nom>
//@   ensures: template_post(orig_i, r)
//@ end
}
impl OptionsTemplate {
//@ fn expanded variable_versions::v9 /impl<'nom> nom_derive::Parse<.*> for OptionsTemplate/ parse_be
//@   result: r
//@   generics: <'nom>
//@   rules: R7
//@   track: orig_i
//@   ensures: options_template_post(orig_i, r)
//@   before "let (i, scope_fields) =": let ghost i1 = i; proof {
//@       assert forall|k: int, ins: Seq<&'nom [u8]>, vals: Seq<OptionsTemplateScopeField>|
//@           0 <= k && #[trigger] nom_c::count_ok(OptionsTemplateScopeField::parse, k, ins, vals) && ins[0] == i
//@           implies sf_chain_facts(orig_i@, 6, k, ins, vals) by { lemma_sf_chain(orig_i@, 6, k, ins, vals); }
//@   }
//@   before "let (i, option_fields) =": proof {
//@       let n1 = (options_scope_length / 4) as int;
//@       assert(i@ == orig_i@.subrange(6 + 4 * n1, orig_i@.len() as int));
//@       assert forall|k: int, ins: Seq<&'nom [u8]>, vals: Seq<TemplateField>|
//@           0 <= k && #[trigger] nom_c::count_ok(TemplateField::parse, k, ins, vals) && ins[0] == i
//@           implies tf_chain_facts(orig_i@, 6 + 4 * n1, k, ins, vals) by { lemma_tf_chain(orig_i@, 6 + 4 * n1, k, ins, vals); }
//@   }
//@ end
//@ fn expanded variable_versions::v9 /impl<'nom> nom_derive::Parse<.*> for OptionsTemplate/ parse
//@   result: r
//@   generics: <'nom>
//@   ensures: options_template_post(orig_i, r)
//@ end
}

impl Templates {
//@ fn expanded variable_versions::v9 /impl<'nom> nom_derive::Parse<.*> for Templates/ parse_be
//@   result: r
//@   generics: <'nom>
//@   prerules: R13 R14
//@   rules: R7
//@   ensures: templates_post(orig_i, r)
//@   before "let (i, templates) =": let ghost b = orig_i@; let ghost i2 = i; proof {
//@       assert(i@ =~= b.subrange(0, b.len() as int));
//@       assert forall|ii: &'nom [u8], rr: IResult<&'nom [u8], Template>| #[trigger] __m0_templates.ensures((ii,), rr) implies template_post(ii, rr) by {
//@           let r1 = choose|r1: IResult<&'nom [u8], Template>| call_ensures(Template::parse_be, (ii,), r1) && (r1 is Ok ==> rr == r1)
//@                     && (r1 is Err ==> rr is Err && !(rr->Err_0 is Incomplete) && (r1->Err_0 is Failure <==> rr->Err_0 is Failure));
//@       }
//@       assert forall|k: int, ins: Seq<&'nom [u8]>, vals: Seq<Template>|
//@           0 <= k && #[trigger] nom_c::count_ok(__m0_templates, k, ins, vals) && ins[0] == i
//@           implies tpls_walk(b, 0, k) is Some && 0 <= tpls_walk(b, 0, k)->0 <= b.len()
//@                   && ins[k]@ == b.subrange(tpls_walk(b, 0, k)->0, b.len() as int) && tpls_match(vals, b, 0)
//@           by { lemma_tpls_many(__m0_templates, b, 0, k, ins, vals); }
//@   }
//@   after "nom::multi::many0(__m0_templates)(i)?;": proof {
//@       let (ins, k, e) = choose|ins: Seq<&'nom [u8]>, k: int, e: nom::Err<nom::error::Error<&'nom [u8]>>|
//@           0 <= k && #[trigger] nom_c::count_ok(__m0_templates, k, ins, templates@) && ins[0] == i2 && ins[k] == i
//@           && #[trigger] __m0_templates.ensures((ins[k],), Err(e)) && e is Error
//@           && forall|j: int| 0 <= j < k ==> (#[trigger] ins[j + 1])@.len() != ins[j]@.len();
//@       let end = tpls_walk(b, 0, k)->0;
//@       assert(template_post(ins[k], Err(e)));
//@       lemma_template_at(b, end, ins[k], Err(e));
//@       lemma_tpls_walk_is_greedy(b, 0, k);
//@   }
//@ end
}
} // verus!
fn main() {}
