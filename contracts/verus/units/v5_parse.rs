// UNIT v5.parse -- macro-expanded V5 / Header / FlowSet parsers (nom-derive output for
// src/static_versions/v5.rs), proved against the Cisco layout table for ALL counts.
//@ include prelude.rs
verus! {
//@ type src/protocol.rs - ProtocolTypes
pub uninterp spec fn proto_of(n: u8) -> ProtocolTypes;
impl ProtocolTypes {
    // From<u8> for ProtocolTypes: the table itself is the subject of V.proto.table
    #[verifier::external_body]
    pub fn from(item: u8) -> (r: ProtocolTypes) ensures r == proto_of(item) { unimplemented!() }
}
//@ type src/static_versions/v5.rs - V5
//@ type src/static_versions/v5.rs - Header
//@ type src/static_versions/v5.rs - FlowSet
}
//@ layout v5
verus! {

/// C03/C14 for one packet: the result of V5::parse on `b` (bytes after the version field)
pub open spec fn v5_parse_post<'a>(b: &'a [u8], r: IResult<&'a [u8], V5>) -> bool {
    if b@.len() < 22 || b@.len() < 22 + 48 * (be16(b@, 0) as int) {
        r is Err                                         // shorter than announced: never a shorter packet
    } else {
        let n = be16(b@, 0) as int;
        &&& r is Ok
        &&& r->Ok_0.0@ == b@.subrange(22 + 48 * n, b@.len() as int)     // ends after 24 + 48*count bytes
        &&& r->Ok_0.1.header == v5_header_dec(b@, 0)
        &&& r->Ok_0.1.flowsets@.len() == n
        &&& forall|k: int| 0 <= k < n ==> #[trigger] r->Ok_0.1.flowsets@[k] == v5_record_dec(b@, 22 + 48 * k)
    }
}

pub open spec fn chain_facts<'a>(b: Seq<u8>, k: int, ins: Seq<&'a [u8]>, vals: Seq<FlowSet>) -> bool {
    &&& 22 + 48 * k <= b.len()
    &&& ins[k]@ == b.subrange(22 + 48 * k, b.len() as int)
    &&& forall|j: int| 0 <= j < k ==> #[trigger] vals[j] == v5_record_dec(b, 22 + 48 * j)
}

proof fn lemma_rec_shift(b: Seq<u8>, o: int)
    requires 0 <= o, o + 48 <= b.len(),
    ensures v5_record_dec(b.subrange(o, b.len() as int), 0) == v5_record_dec(b, o),
{
    reveal(v5_record_dec);
}

proof fn lemma_chain<'a>(b: Seq<u8>, k: int, ins: Seq<&'a [u8]>, vals: Seq<FlowSet>)
    requires
        0 <= k, b.len() >= 22,
        nom_c::count_ok(FlowSet::parse, k, ins, vals),
        ins[0]@ == b.subrange(22, b.len() as int),
    ensures chain_facts(b, k, ins, vals),
    decreases k,
{
    if k > 0 {
        let ins1 = ins.subrange(0, k);
        let vals1 = vals.subrange(0, k - 1);
        assert(nom_c::count_ok(FlowSet::parse, k - 1, ins1, vals1)) by {
            assert forall|j: int| 0 <= j < k - 1 implies call_ensures(FlowSet::parse, (#[trigger] ins1[j],), Ok((ins1[j + 1], vals1[j]))) by {
                assert(ins1[j] == ins[j]);
                assert(call_ensures(FlowSet::parse, (ins[j],), Ok((ins[j + 1], vals[j]))));
            }
        }
        lemma_chain(b, k - 1, ins1, vals1);
        assert(ins[k - 1] == ins1[k - 1]);
        let o = 22 + 48 * (k - 1);
        let p = ins[k - 1];
        assert(call_ensures(FlowSet::parse, (p,), Ok((ins[k], vals[k - 1]))));
        assert(p@ == b.subrange(o, b.len() as int));
        assert(p@.len() >= 48);
        lemma_track(b, o, p@, ins[k]@);
        lemma_rec_shift(b, o);
        assert(vals[k - 1] == v5_record_dec(b, o));
        assert forall|j: int| 0 <= j < k implies #[trigger] vals[j] == v5_record_dec(b, 22 + 48 * j) by {
            if j < k - 1 { assert(vals[j] == vals1[j]); }
        }
    }
}

/// C11 (locality of V5): a complete V5 packet decodes to the same header and records, and leaves exactly the
/// appended bytes, whatever follows it in the buffer -- so V5 packets are `is_local_packet` in the sense of
/// V.lib.theorems (hypothesis of thm_c11_chain discharged for V5 from the parser's own contract).
proof fn lemma_rec_prefix(b: Seq<u8>, y: Seq<u8>, o: int)
    requires 0 <= o, o + 48 <= b.len(),
    ensures v5_record_dec(b + y, o) == v5_record_dec(b, o),
{
    reveal(v5_record_dec);
}
pub proof fn thm_c11_v5_local<'a>(b: &'a [u8], by: &'a [u8], y: Seq<u8>, r1: IResult<&'a [u8], V5>, r2: IResult<&'a [u8], V5>)
    requires
        b@.len() >= 22, b@.len() == 22 + 48 * (be16(b@, 0) as int),      // b is exactly one complete packet (after its version field)
        by@ == b@ + y,
        v5_parse_post(b, r1), v5_parse_post(by, r2),
    ensures
        r1 is Ok && r2 is Ok,
        r1->Ok_0.0@.len() == 0 && r2->Ok_0.0@ == y,
        r2->Ok_0.1.header == r1->Ok_0.1.header,
        r2->Ok_0.1.flowsets@ == r1->Ok_0.1.flowsets@,
{
    let n = be16(b@, 0) as int;
    assert(be16(by@, 0) == be16(b@, 0));
    assert(v5_header_dec(by@, 0) == v5_header_dec(b@, 0)) by { reveal(v5_header_dec); }
    assert(by@.subrange(22 + 48 * n, by@.len() as int) =~= y);
    assert forall|k: int| 0 <= k < n implies r2->Ok_0.1.flowsets@[k] == r1->Ok_0.1.flowsets@[k] by {
        lemma_rec_prefix(b@, y, 22 + 48 * k);
    }
    assert(r2->Ok_0.1.flowsets@ =~= r1->Ok_0.1.flowsets@);
}

impl Header {
//@ fn expanded static_versions::v5 /impl<'nom> nom_derive::Parse<.*> for Header/ parse_be
//@   result: r
//@   generics: <'nom>
//@   rules: R7 R9
//@   track: orig_i
//@   before "let i = orig_i;": proof { reveal(v5_header_dec); }
//@   ensures: fixed_post(orig_i, r, 22)
//@   ensures: r is Ok ==> r->Ok_0.1 == v5_header_dec(orig_i@, 0)
//@ end
//@ fn expanded static_versions::v5 /impl<'nom> nom_derive::Parse<.*> for Header/ parse
//@   result: r
//@   generics: <'nom>
//@   ensures: fixed_post(orig_i, r, 22)
//@   ensures: r is Ok ==> r->Ok_0.1 == v5_header_dec(orig_i@, 0)
//@ end
}

impl FlowSet {
//@ fn expanded static_versions::v5 /impl<'nom> nom_derive::Parse<.*> for FlowSet/ parse_be
//@   result: r
//@   generics: <'nom>
//@   rules: R7 R9
//@   track: orig_i
//@   before "let i = orig_i;": proof { reveal(v5_record_dec); }
//@   ensures: fixed_post(orig_i, r, 48)
//@   ensures: r is Ok ==> r->Ok_0.1 == v5_record_dec(orig_i@, 0)
//@ end
//@ fn expanded static_versions::v5 /impl<'nom> nom_derive::Parse<.*> for FlowSet/ parse
//@   result: r
//@   generics: <'nom>
//@   ensures: fixed_post(orig_i, r, 48)
//@   ensures: r is Ok ==> r->Ok_0.1 == v5_record_dec(orig_i@, 0)
//@ end
}

impl V5 {
//@ fn expanded static_versions::v5 /impl<'nom> nom_derive::Parse<.*> for V5/ parse_be
//@   result: r
//@   generics: <'nom>
//@   ensures: v5_parse_post(orig_i, r)
//@   before "let (i, flowsets) =": proof {
//@       reveal(v5_header_dec);
//@       assert(header.count == be16(orig_i@, 0));
//@       assert forall|k: int, ins: Seq<&'nom [u8]>, vals: Seq<FlowSet>|
//@           0 <= k && #[trigger] nom_c::count_ok(FlowSet::parse, k, ins, vals) && ins[0] == i
//@           implies chain_facts(orig_i@, k, ins, vals) by { lemma_chain(orig_i@, k, ins, vals); }
//@   }
//@ end
//@ fn expanded static_versions::v5 /impl<'nom> nom_derive::Parse<.*> for V5/ parse
//@   result: r
//@   generics: <'nom>
//@   ensures: v5_parse_post(orig_i, r)
//@ end
}

} // verus!
fn main() {}
