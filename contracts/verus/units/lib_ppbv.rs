// UNIT lib.ppbv -- NetflowParser::parse_packet_by_version, verbatim from src/lib.rs
//@ include prelude.rs
//@ include lib_types.rs
//@ include lib_spec.rs
verus! {

// ---- callee stubs (contracts proved by the units named in units.toml) ----
impl GenericNetflowHeader {
//@ stub stubs/generic_header_parse.rs
}
pub struct V5Parser;
pub struct V7Parser;
impl V5Parser {
//@ stub stubs/v5parser_parse.rs
}
impl V7Parser {
//@ stub stubs/v7parser_parse.rs
}
impl V9Parser {
//@ stub stubs/v9parser_parse.rs
}
impl IPFixParser {
//@ stub stubs/ipfixparser_parse.rs
}

impl NetflowParser {
//@ fn src/lib.rs - /impl NetflowParser/ parse_packet_by_version
//@   contract: stubs/lib_ppbv.rs
//@   prerules: R30
//@   bodystart: broadcast use lemma_cloned_u8; broadcast use lemma_suffix_after2;
//@ end
}

} // verus!
fn main() {}
