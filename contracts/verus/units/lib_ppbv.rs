// UNIT lib.ppbv -- NetflowParser::parse_packet_by_version, verbatim from src/lib.rs
//@ include prelude.rs
//@ include lib_types.rs
//@ include lib_spec.rs
verus! {

// ---- callee stubs (contracts discharged elsewhere; see units.toml `assumes`) ----
impl GenericNetflowHeader {
    // derive(Nom) on `struct { version: u16 }` == be_u16; discharged by K.lib.generic_header
    #[verifier::external_body]
    fn parse(i: &[u8]) -> (r: IResult<&[u8], GenericNetflowHeader>)
        ensures
            i@.len() < 2 ==> r is Err,
            i@.len() >= 2 ==> r is Ok && r->Ok_0.0@ == i@.subrange(2, i@.len() as int)
                && r->Ok_0.1.version == be16(i@, 0),
    { unimplemented!() }
}
pub struct V5Parser;
pub struct V7Parser;
impl V5Parser {
    #[verifier::external_body]
    pub fn parse(packet: &[u8]) -> (r: Result<ParsedNetflow, NetflowParseError>)
        ensures to_subres(r) == v5_fn(packet@), sub_wf(packet@, v5_fn(packet@), 5),
    { unimplemented!() }
}
impl V7Parser {
    #[verifier::external_body]
    pub fn parse(packet: &[u8]) -> (r: Result<ParsedNetflow, NetflowParseError>)
        ensures to_subres(r) == v7_fn(packet@), sub_wf(packet@, v7_fn(packet@), 7),
    { unimplemented!() }
}
impl V9Parser {
    #[verifier::external_body]
    pub fn parse(&mut self, packet: &[u8]) -> (r: Result<ParsedNetflow, NetflowParseError>)
        ensures (to_subres(r), *final(self)) == v9_fn(*old(self), packet@),
                sub_wf(packet@, v9_fn(*old(self), packet@).0, 9),
    { unimplemented!() }
}
impl IPFixParser {
    #[verifier::external_body]
    pub fn parse(&mut self, packet: &[u8]) -> (r: Result<ParsedNetflow, NetflowParseError>)
        ensures (to_subres(r), *final(self)) == ipfix_fn(*old(self), packet@),
                sub_wf(packet@, ipfix_fn(*old(self), packet@).0, 10),
    { unimplemented!() }
}

impl NetflowParser {
//@ fn src/lib.rs - /impl NetflowParser/ parse_packet_by_version
//@   result: r
//@   ensures: final(self).allowed_versions == old(self).allowed_versions
//@   ensures: subres_eq(to_subres(r), pp_spec(state_of(*old(self)), old(self).allowed_versions@, packet@).0)
//@   ensures: state_of(*final(self)) == pp_spec(state_of(*old(self)), old(self).allowed_versions@, packet@).1
//@   ensures: r is Ok ==> r->Ok_0.remaining@.len() + 2 <= packet@.len()
//@   ensures: packet@.len() >= 2 && !old(self).allowed_versions@.contains(be16(packet@, 0)) ==> *final(self) == *old(self)
//@   closure 0: p | -> (o: (&'a [u8], u16)) ensures o.0 == p.0, o.1 == p.1.version
//@   closure 1: - | -> (o: NetflowParseError) ensures o is Incomplete
//@   before "let (packet, version)": broadcast use lemma_cloned_u8;
//@ end
}

} // verus!
fn main() {}
