// UNIT v9.flowsetbody -- v9::FlowSetBody::parse, verbatim from src/variable_versions/v9.rs
// C06: cache transition; C07: unknown id => Err(Verify), cache unchanged.
// R5: the two `extend(iter.map(..))` statements are replaced by contracted stubs (Verus has no
// iterator-adapter support); their effect is cross-checked by the bounded harness B.v9.template_insert.
//@ include prelude.rs
//@ include v9_types.rs
verus! {

pub open spec fn insert_all(m: Map<u16, Template>, ts: Seq<Template>) -> Map<u16, Template> decreases ts.len() {
    if ts.len() == 0 { m } else { insert_all(m, ts.drop_last()).insert(ts.last().template_id, ts.last()) }
}
pub open spec fn insert_all_o(m: Map<u16, OptionsTemplate>, ts: Seq<OptionsTemplate>) -> Map<u16, OptionsTemplate> decreases ts.len() {
    if ts.len() == 0 { m } else { insert_all_o(m, ts.drop_last()).insert(ts.last().template_id, ts.last()) }
}
// R5 stubs: `map.extend(ts.iter().map(|t| (t.template_id, t.clone())))` == insert each in order (later wins)
#[verifier::external_body]
pub fn vf_extend_templates(m: &mut HashMap<u16, Template>, ts: &Vec<Template>)
    ensures final(m)@ == insert_all(old(m)@, ts@)
{ unimplemented!() }
#[verifier::external_body]
pub fn vf_extend_options_templates(m: &mut HashMap<u16, OptionsTemplate>, ts: &Vec<OptionsTemplate>)
    ensures final(m)@ == insert_all_o(old(m)@, ts@)
{ unimplemented!() }

impl Templates {
    #[verifier::external_body]
    fn parse<'a>(i: &'a [u8]) -> (r: IResult<&'a [u8], Templates>) { unimplemented!() }
}
impl OptionsTemplates {
    #[verifier::external_body]
    fn parse<'a>(i: &'a [u8]) -> (r: IResult<&'a [u8], OptionsTemplates>) { unimplemented!() }
}
impl Data {
//@ stub stubs/v9_data_parse.rs
}
impl OptionsData {
//@ stub stubs/v9_optionsdata_parse.rs
}

pub open spec fn v9_body_post<'a>(old_p: V9Parser, new_p: V9Parser, id: u16, r: IResult<&'a [u8], FlowSetBody>) -> bool {
    if id == 0 {
        match r {
            Ok((_, FlowSetBody::Template(ts))) =>
                new_p.templates@ == insert_all(old_p.templates@, ts.templates@)      // every record, in order, latest wins
                && new_p.options_templates == old_p.options_templates,
            Ok(_) => false,
            Err(_) => new_p == old_p,
        }
    } else if id == 1 {
        match r {
            Ok((_, FlowSetBody::OptionsTemplate(ts))) =>
                new_p.options_templates@ == insert_all_o(old_p.options_templates@, ts.templates@)
                && new_p.templates == old_p.templates,
            Ok(_) => false,
            Err(_) => new_p == old_p,
        }
    } else {
        &&& new_p == old_p
        &&& (r matches Ok((_, body)) ==> (
                (body is OptionsData && old_p.options_templates@.contains_key(id))
                || (body is Data && !old_p.options_templates@.contains_key(id) && old_p.templates@.contains_key(id))))
        &&& (!old_p.templates@.contains_key(id) && !old_p.options_templates@.contains_key(id) ==>
                (r matches Err(nom::Err::Error(e)) && e.code == ErrorKind::Verify))
    }
}

impl FlowSetBody {
//@ fn src/variable_versions/v9.rs - /impl FlowSetBody/ parse
//@   result: r
//@   ensures: v9_body_post(*old(parser), *final(parser), id, r)
//@   opaque "parser.templates.extend(": vf_extend_templates(&mut parser.templates, &templates.templates);
//@   opaque "parser.options_templates.extend(": vf_extend_options_templates(&mut parser.options_templates, &options_templates.templates);
//@ end
}

} // verus!
fn main() {}
