// UNIT v9.flowsetbody -- v9::FlowSetBody::parse, verbatim from src/variable_versions/v9.rs
// C06: cache transition; C07: unknown id => Err(Verify), cache unchanged.
// The two `extend(iter.map(..))` statements are replaced by the loop that defines them (R29: insert every pair in
// order); an `entry(k).or_insert_with(|| v);` statement, should one appear, by its definition (R28).
//@ include prelude.rs
//@ include v9_types.rs
verus! {

pub open spec fn insert_all(m: Map<u16, Template>, ts: Seq<Template>) -> Map<u16, Template> decreases ts.len() {
    if ts.len() == 0 { m } else { insert_all(m, ts.drop_last()).insert(ts.last().template_id, ts.last()) }
}
pub open spec fn insert_all_o(m: Map<u16, OptionsTemplate>, ts: Seq<OptionsTemplate>) -> Map<u16, OptionsTemplate> decreases ts.len() {
    if ts.len() == 0 { m } else { insert_all_o(m, ts.drop_last()).insert(ts.last().template_id, ts.last()) }
}
proof fn lemma_take_step_t(ts: Seq<Template>, k: int)
    requires 0 <= k < ts.len(),
    ensures ts.take(k + 1).drop_last() =~= ts.take(k), ts.take(k + 1).last() == ts[k],
{}
proof fn lemma_take_step_o(ts: Seq<OptionsTemplate>, k: int)
    requires 0 <= k < ts.len(),
    ensures ts.take(k + 1).drop_last() =~= ts.take(k), ts.take(k + 1).last() == ts[k],
{}
impl Templates {
    #[verifier::external_body]
    fn parse<'a>(i: &'a [u8]) -> (r: IResult<&'a [u8], Templates>) { unimplemented!() }
}
impl OptionsTemplates {
    #[verifier::external_body]
    fn parse<'a>(i: &'a [u8]) -> (r: IResult<&'a [u8], OptionsTemplates>) { unimplemented!() }
}
impl Data {
//@ stub stubs/v9_data_parse.rs
}
impl OptionsData {
//@ stub stubs/v9_optionsdata_parse.rs
}

pub open spec fn v9_body_post<'a>(old_p: V9Parser, new_p: V9Parser, id: u16, r: IResult<&'a [u8], FlowSetBody>) -> bool {
    if id == 0 {
        match r {
            Ok((_, FlowSetBody::Template(ts))) =>
                new_p.templates@ == insert_all(old_p.templates@, ts.templates@)      // every record, in order, latest wins
                && new_p.options_templates == old_p.options_templates,
            Ok(_) => false,
            Err(_) => new_p == old_p,
        }
    } else if id == 1 {
        match r {
            Ok((_, FlowSetBody::OptionsTemplate(ts))) =>
                new_p.options_templates@ == insert_all_o(old_p.options_templates@, ts.templates@)
                && new_p.templates == old_p.templates,
            Ok(_) => false,
            Err(_) => new_p == old_p,
        }
    } else {
        &&& new_p == old_p
        &&& (r matches Ok((_, body)) ==> (
                (body is OptionsData && old_p.options_templates@.contains_key(id))
                || (body is Data && !old_p.options_templates@.contains_key(id) && old_p.templates@.contains_key(id))))
        &&& (!old_p.templates@.contains_key(id) && !old_p.options_templates@.contains_key(id) ==>
                (r matches Err(nom::Err::Error(e)) && e.code == ErrorKind::Verify))
    }
}

impl FlowSetBody {
//@ fn src/variable_versions/v9.rs - /impl FlowSetBody/ parse
//@   result: r
//@   ensures: v9_body_post(*old(parser), *final(parser), id, r)
//@   prerules: R29 R28
//@   forloop 0: it0 | invariant parser.templates@ == insert_all(old(parser).templates@, templates.templates@.take(it0.index@ as int)),
//@           parser.options_templates == old(parser).options_templates, it0.index@ <= templates.templates@.len()
//@   forend 0: proof { lemma_take_step_t(templates.templates@, it0.index@ as int); }
//@   afterfor 0: proof { assert(templates.templates@.take(templates.templates@.len() as int) =~= templates.templates@); }
//@   forloop 1: it1 | invariant parser.options_templates@ == insert_all_o(old(parser).options_templates@, options_templates.templates@.take(it1.index@ as int)),
//@           parser.templates == old(parser).templates, it1.index@ <= options_templates.templates@.len()
//@   forend 1: proof { lemma_take_step_o(options_templates.templates@, it1.index@ as int); }
//@   afterfor 1: proof { assert(options_templates.templates@.take(options_templates.templates@.len() as int) =~= options_templates.templates@); }
//@ end
}

} // verus!
fn main() {}
