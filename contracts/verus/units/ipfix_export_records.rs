// UNIT ipfix.export_records -- the two data-record export loops of IPFix::to_be_bytes (src/variable_versions/ipfix.rs:431-435,
// 440-444: Data and OptionsData branch), the statements that V.ipfix.to_be_bytes replaces by stubs (R5), as functions of their own; the inner
// `for .. in map.iter()` is replaced by the definition of `for` over the iterator (R27).  C10: the values of every record
// are re-exported one after the other, record after record, in the maps' iteration order, each as FieldValue::to_be_bytes
// gives it; nothing is skipped, repeated or reordered; an encoding error fails the export.
//@ include prelude.rs
verus! {
use std::collections::btree_map::Iter;
use vstd::std_specs::iter::IteratorSpec;
#[verifier::external_body] pub struct IPFixField { _p: () }
#[verifier::external_body] pub struct FieldValue { _p: () }
#[verifier::external_body] pub struct VfError { _p: () }
#[verifier::external_type_specification] #[verifier::external_body] pub struct ExIoError(std::io::Error);
impl From<std::io::Error> for VfError { #[verifier::external_body] fn from(e: std::io::Error) -> Self { unimplemented!() } }
//@ alias src/variable_versions/ipfix.rs - IPFixFieldPair
//@ type src/variable_versions/ipfix.rs - Data
//@ type src/variable_versions/ipfix.rs - OptionsData
pub type VfPair = IPFixFieldPair;
}
//@ include records_enc_spec.rs
verus! {
impl FieldValue {
    // K.rt.* / FieldValue::to_be_bytes
    #[verifier::external_body]
    pub fn to_be_bytes(&self) -> (r: Result<Vec<u8>, std::io::Error>)
        ensures match fv_enc(*self) { Some(b) => r is Ok && r->Ok_0@ == b, None => r is Err },
    { unimplemented!() }
}
// R27 wrapper: `m.iter()` on a record map (the body is the original call); ties the iterator to bt_seq
#[verifier::external_body]
pub fn vf_bt_iter<'a>(m: &'a BTreeMap<usize, VfPair>) -> (it: Iter<'a, usize, VfPair>)
    ensures it.remaining() == bt_seq(m), bt_seq(m).len() == m@.len(),
{ m.iter() }

//@ fn src/variable_versions/ipfix.rs - /impl IPFix/ to_be_bytes
//@   onlystmt "for item in data.fields.iter()": Ok(())
//@   nth: 0
//@   sig: pub fn vf_export_records(result_flowset: &mut Vec<u8>, data: &Data) -> Result<(), VfError>
//@   contract: stubs/ipfix_export_records.rs
//@   prerules: R27
//@   btfor: 1
//@   forloop 0: it0 | invariant result_flowset@ =~= old(result_flowset)@ + recs_enc(data.fields@, it0.index@)
//@   beforeloop 0: let ghost all = bt_seq(item); let ghost n = item@.len() as int; let ghost mut k: int = 0; let ghost base = result_flowset@;
//@   loop 0: invariant_except_break 0 <= k <= n, __bi.remaining().len() + k == n, n == all.len(), all == bt_seq(item), n == item@.len(),
//@           forall|j: int| 0 <= j < __bi.remaining().len() ==> __bi.remaining()[j] == all[j + k],
//@           result_flowset@ =~= base + rec_enc(item, k), base =~= old(result_flowset)@ + recs_enc(data.fields@, it0.index@),
//@       ensures k == n, result_flowset@ =~= base + rec_enc(item, k), base =~= old(result_flowset)@ + recs_enc(data.fields@, it0.index@), n == item@.len(),
//@       decreases n - k
//@   loopend 0: proof { k = k + 1; }
//@ end
//@ fn src/variable_versions/ipfix.rs - /impl IPFix/ to_be_bytes
//@   onlystmt "for item in data.fields.iter()": Ok(())
//@   nth: 1
//@   sig: pub fn vf_export_records_od(result_flowset: &mut Vec<u8>, data: &OptionsData) -> Result<(), VfError>
//@   contract: stubs/ipfix_export_records_od.rs
//@   prerules: R27
//@   btfor: 1
//@   forloop 0: it0 | invariant result_flowset@ =~= old(result_flowset)@ + recs_enc(data.fields@, it0.index@)
//@   beforeloop 0: let ghost all = bt_seq(item); let ghost n = item@.len() as int; let ghost mut k: int = 0; let ghost base = result_flowset@;
//@   loop 0: invariant_except_break 0 <= k <= n, __bi.remaining().len() + k == n, n == all.len(), all == bt_seq(item), n == item@.len(),
//@           forall|j: int| 0 <= j < __bi.remaining().len() ==> __bi.remaining()[j] == all[j + k],
//@           result_flowset@ =~= base + rec_enc(item, k), base =~= old(result_flowset)@ + recs_enc(data.fields@, it0.index@),
//@       ensures k == n, result_flowset@ =~= base + rec_enc(item, k), base =~= old(result_flowset)@ + recs_enc(data.fields@, it0.index@), n == item@.len(),
//@       decreases n - k
//@   loopend 0: proof { k = k + 1; }
//@ end
} // verus!
fn main() {}
