// UNIT lib.common -- TryFrom<&NetflowPacket> for NetflowCommon (src/netflow_common.rs:28-40),
// NetflowPacket::as_netflow_common (src/lib.rs:244-246) and NetflowParser::parse_bytes_as_netflow_common_flowsets
// (src/lib.rs:363-371; `iter().flat_map(..).collect()` replaced by its definition, R24).  C13: a packet converts with
// the conversion of its own version, an Error element converts to an error; the flattened view is the in-order
// concatenation of the flows of all non-error packets that parse_bytes returns for the buffer.
//@ include prelude.rs
//@ include lib_types.rs
verus! {
#[verifier::external_body] pub struct NetflowCommonFlowSet { _p: () }
//@ type src/netflow_common.rs - NetflowCommon
//@ type src/netflow_common.rs - NetflowCommonError
/// the four per-version conversions (contracts: K.common.v5, K.common.v7, V.common.v9, V.common.ipfix)
pub uninterp spec fn common_v5(p: V5) -> (u16, u32, Seq<NetflowCommonFlowSet>);
pub uninterp spec fn common_v7(p: V7) -> (u16, u32, Seq<NetflowCommonFlowSet>);
pub uninterp spec fn common_v9(p: V9) -> (u16, u32, Seq<NetflowCommonFlowSet>);
pub uninterp spec fn common_ipfix(p: IPFix) -> (u16, u32, Seq<NetflowCommonFlowSet>);
pub open spec fn cview(c: NetflowCommon) -> (u16, u32, Seq<NetflowCommonFlowSet>) { (c.version, c.timestamp, c.flowsets@) }
pub trait VfIntoCommon { spec fn cspec(&self) -> (u16, u32, Seq<NetflowCommonFlowSet>); }
impl VfIntoCommon for V5 { open spec fn cspec(&self) -> (u16, u32, Seq<NetflowCommonFlowSet>) { common_v5(*self) } }
impl VfIntoCommon for V7 { open spec fn cspec(&self) -> (u16, u32, Seq<NetflowCommonFlowSet>) { common_v7(*self) } }
impl VfIntoCommon for V9 { open spec fn cspec(&self) -> (u16, u32, Seq<NetflowCommonFlowSet>) { common_v9(*self) } }
impl VfIntoCommon for IPFix { open spec fn cspec(&self) -> (u16, u32, Seq<NetflowCommonFlowSet>) { common_ipfix(*self) } }
// R23 wrapper: `x.into()` for x: &V5 / &V7 / &V9 / &IPFix (From<&_> for NetflowCommon)
#[verifier::external_body]
pub fn vf_into<T: VfIntoCommon>(x: &T) -> (r: NetflowCommon) ensures cview(r) == x.cspec() { unimplemented!() }
impl Clone for NetflowPacket { #[verifier::external_body] fn clone(&self) -> (r: Self) ensures r == *self { unimplemented!() } }
// derive(Default) for NetflowCommon: no flows
impl Default for NetflowCommon { #[verifier::external_body] fn default() -> (r: Self) ensures r.flowsets@.len() == 0 { unimplemented!() } }
// std: Result::unwrap_or_default -- "Returns the contained Ok value or a default" (trusted std specification)
pub assume_specification<T: Default, E> [Result::<T, E>::unwrap_or_default] (res: Result<T, E>) -> (r: T)
    ensures match res { Ok(t) => r == t, Err(_) => call_ensures(T::default, (), r) };
// R2 wrapper: `v.extend(w)` for w: Vec<T>  (body is the original call)
#[verifier::external_body]
pub fn vf_extend<T>(v: &mut Vec<T>, w: Vec<T>) ensures final(v)@ == old(v)@ + w@ { v.extend(w) }

/// what one element of parse_bytes' result contributes to the common view
pub open spec fn packet_common(p: NetflowPacket) -> Option<(u16, u32, Seq<NetflowCommonFlowSet>)> {
    match p {
        NetflowPacket::V5(x) => Some(common_v5(x)),
        NetflowPacket::V7(x) => Some(common_v7(x)),
        NetflowPacket::V9(x) => Some(common_v9(x)),
        NetflowPacket::IPFix(x) => Some(common_ipfix(x)),
        NetflowPacket::Error(_) => None,
    }
}
pub open spec fn try_from_post(value: NetflowPacket, r: Result<NetflowCommon, NetflowCommonError>) -> bool {
    match packet_common(value) { Some(c) => r is Ok && cview(r->Ok_0) == c, None => r is Err }
}
/// in-order concatenation of the flows of the first n packets (errors contribute nothing)
pub open spec fn concat_flows(ps: Seq<NetflowPacket>, n: int) -> Seq<NetflowCommonFlowSet>
    decreases n
{
    if n <= 0 { Seq::<NetflowCommonFlowSet>::empty() } else {
        concat_flows(ps, n - 1) + (match packet_common(ps[n - 1]) { Some(c) => c.2, None => Seq::<NetflowCommonFlowSet>::empty() })
    }
}
/// relation between a parser state, a buffer, what parse_bytes returns and the state afterwards (V.lib.parse_bytes)
pub uninterp spec fn pb_rel(old_p: NetflowParser, b: Seq<u8>, out: Seq<NetflowPacket>, new_p: NetflowParser) -> bool;

impl NetflowCommon {
//@ fn src/netflow_common.rs - /impl TryFrom<&NetflowPacket> for NetflowCommon/ try_from
//@   result: r
//@   rules: R23
//@   ensures: try_from_post(*value, r)
//@ end
}
// R23 wrapper: `self.try_into()` for self: &NetflowPacket is TryFrom<&NetflowPacket> for NetflowCommon (the function above)
pub fn vf_try_into(p: &NetflowPacket) -> (r: Result<NetflowCommon, NetflowCommonError>)
    ensures try_from_post(*p, r)
{ NetflowCommon::try_from(p) }
impl NetflowPacket {
//@ fn src/lib.rs - /impl NetflowPacket/ as_netflow_common
//@   result: r
//@   rules: R23
//@   ensures: try_from_post(*self, r)
//@ end
}
impl NetflowParser {
    #[verifier::external_body]
    pub fn parse_bytes(&mut self, packet: &[u8]) -> (r: Vec<NetflowPacket>)
        ensures pb_rel(*old(self), packet@, r@, *final(self)),
    { unimplemented!() }
//@ fn src/lib.rs - /impl NetflowParser/ parse_bytes_as_netflow_common_flowsets
//@   result: r
//@   prerules: R24
//@   ensures: exists|pk: Seq<NetflowPacket>| #[trigger] pb_rel(*old(self), packet@, pk, *final(self)) && r@ =~= concat_flows(pk, pk.len() as int)
//@   loop 0: invariant __q <= __fm.len(), __fm@ == netflow_packets@, __out@ =~= concat_flows(netflow_packets@, __q as int),
//@       decreases __fm.len() - __q
//@ end
}
} // verus!
fn main() {}
