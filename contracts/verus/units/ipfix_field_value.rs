// UNIT ipfix.field_value -- ipfix::TemplateField::parse_field_length and parse_as_field_value, verbatim from
// src/variable_versions/ipfix.rs:347-375.  C05: "variable-length fields taking their length from the 1- or
// 3-byte prefix in the data"; enterprise fields are kept as raw bytes of exactly that length.
//@ include prelude.rs
verus! {
#[verifier::external_body] pub struct IPFixField { _p: () }
#[verifier::external_body] pub struct FieldDataType { _p: () }
#[verifier::external_body] pub struct DataNumber { _p: () }
#[verifier::external_body] pub struct ProtocolTypes { _p: () }
//@ type src/variable_versions/ipfix.rs - TemplateField
// only the variant this unit constructs is needed; the other payload types are opaque
pub enum FieldValue { Vec(Vec<u8>), Other(DataNumber) }

pub uninterp spec fn datatype_of(f: IPFixField) -> FieldDataType;
impl IPFixField {
    // `self.field_type.into()`: From<IPFixField> for FieldDataType (lookup table)
    #[verifier::external_body] pub fn into(self) -> (r: FieldDataType) ensures r == datatype_of(self) { unimplemented!() }
}
impl Clone for IPFixField { #[verifier::external_body] fn clone(&self) -> (r: Self) ensures r == *self { unimplemented!() } }
impl Copy for IPFixField {}
/// semantic function of FieldValue::from_field_type (leaf contracts: K.fv.from.*)
pub uninterp spec fn fv_from(b: Seq<u8>, t: FieldDataType, len: u16) -> Option<(FieldValue, Seq<u8>)>;
pub open spec fn nom_view<T>(r: IResult<&[u8], T>) -> Option<(T, Seq<u8>)> {
    match r { Ok((rest, v)) => Some((v, rest@)), Err(_) => None }
}
impl FieldValue {
    #[verifier::external_body]
    pub fn from_field_type<'a>(remaining: &'a [u8], field_type: FieldDataType, field_length: u16) -> (r: IResult<&'a [u8], FieldValue>)
        ensures nom_view(r) == fv_from(remaining@, field_type, field_length),
            r is Ok ==> r->Ok_0.0@.len() <= remaining@.len(),      // the rest is a suffix of the input (K.fv.from.*)
    { unimplemented!() }
}

/// RFC 7011 section 7: length of the value of a field whose template length is `fl`, read at the start of `b`:
/// fixed -> (fl, nothing consumed); 65535 -> one byte < 255, or 255 followed by a two-byte length
pub open spec fn var_len(fl: u16, b: Seq<u8>) -> Option<(u16, int)> {
    if fl != 65535 { Some((fl, 0int)) }
    else if b.len() < 1 { None }
    else if b[0] != 255 { Some((b[0] as u16, 1int)) }
    else if b.len() < 3 { None }
    else { Some((be16(b, 1), 3int)) }
}

impl TemplateField {
//@ fn src/variable_versions/ipfix.rs - /impl TemplateField/ parse_field_length
//@   result: r
//@   before "match self.field_length": broadcast use lemma_sub_sub;
//@   ensures: var_len(self.field_length, i@) is None ==> r is Err
//@   ensures: var_len(self.field_length, i@) matches Some((l, c)) ==> r is Ok && r->Ok_0.1 == l && r->Ok_0.0@ == i@.subrange(c, i@.len() as int)
//@ end

//@ fn src/variable_versions/ipfix.rs - /impl TemplateField/ parse_as_field_value
//@   result: r
//@   ensures: var_len(self.field_length, i@) is None ==> r is Err
//@   ensures: var_len(self.field_length, i@) matches Some((l, c)) ==> ({
//@            let body = i@.subrange(c, i@.len() as int);
//@            if self.enterprise_number is Some {
//@                if body.len() < l { r is Err } else {
//@                    r matches Ok((rest, FieldValue::Vec(v))) && v@ == body.subrange(0, l as int) && rest@ == body.subrange(l as int, body.len() as int) }
//@            } else { nom_view(r) == fv_from(body, datatype_of(self.field_type), l) } })
//@   ensures: r is Ok ==> r->Ok_0.0@.len() <= i@.len()
//@   before "let (i, length) = self.parse_field_length(i)?;": broadcast use lemma_cloned_u8;
//@ end
}
} // verus!
fn main() {}
