// UNIT ipfix.templates -- nom-derive expansions of the IPFIX message header, set header and field
// specifier (RFC 7011 3.1, 3.2, 3.3.2; enterprise bit handling), src/variable_versions/ipfix.rs:161-285.
//@ include prelude.rs
verus! {
//@ type src/variable_versions/ipfix_lookup.rs - IPFixField
pub uninterp spec fn ipfixfield_of(n: u16) -> IPFixField;
impl IPFixField {
    // From<u16> for IPFixField: lookup table (not under contract here)
    #[verifier::external_body] pub fn from(item: u16) -> (r: IPFixField) ensures r == ipfixfield_of(item) { unimplemented!() }
}
//@ type src/variable_versions/ipfix.rs - Header
//@ type src/variable_versions/ipfix.rs - FlowSetHeader
//@ type src/variable_versions/ipfix.rs - TemplateField
//@ type src/variable_versions/ipfix.rs - Template
//@ type src/variable_versions/ipfix.rs - OptionsTemplate
}
//@ layout ipfix
verus! {
/// RFC 7011 3.2 field specifier: E bit + 15-bit element id, length, and an enterprise number iff E is set
pub open spec fn ipfix_tf_post<'a>(b: &'a [u8], r: IResult<&'a [u8], TemplateField>) -> bool {
    if b@.len() < 4 {
        r is Err && r->Err_0 is Error
    } else if be16(b@, 0) > 32767 {
        if b@.len() < 8 { r is Err && r->Err_0 is Error } else {
            &&& r is Ok
            &&& r->Ok_0.0@ == b@.subrange(8, b@.len() as int)
            &&& r->Ok_0.1.field_type_number == (be16(b@, 0) - 32768) as u16
            &&& r->Ok_0.1.field_type == IPFixField::Enterprise
            &&& r->Ok_0.1.field_length == be16(b@, 2)
            &&& r->Ok_0.1.enterprise_number == Some(be32(b@, 4))
        }
    } else {
        &&& r is Ok
        &&& r->Ok_0.0@ == b@.subrange(4, b@.len() as int)
        &&& r->Ok_0.1.field_type_number == be16(b@, 0)
        &&& r->Ok_0.1.field_type == ipfixfield_of(be16(b@, 0))
        &&& r->Ok_0.1.field_length == be16(b@, 2)
        &&& r->Ok_0.1.enterprise_number is None
    }
}

/// width of the field specifier at offset o (4, or 8 with the enterprise bit), None if it does not fit
pub open spec fn tf_size(b: Seq<u8>, o: int) -> Option<int> {
    if o < 0 || o + 4 > b.len() { None } else if be16(b, o) > 32767 { if o + 8 > b.len() { None } else { Some(8int) } } else { Some(4int) }
}
pub open spec fn tf_val(b: Seq<u8>, o: int) -> TemplateField {
    if be16(b, o) > 32767 {
        TemplateField { field_type_number: (be16(b, o) - 32768) as u16, field_type: IPFixField::Enterprise,
                        field_length: be16(b, o + 2), enterprise_number: Some(be32(b, o + 4)) }
    } else {
        TemplateField { field_type_number: be16(b, o), field_type: ipfixfield_of(be16(b, o)),
                        field_length: be16(b, o + 2), enterprise_number: None }
    }
}
/// the specifiers decoded greedily from offset o until one no longer fits (what the implementation does)
pub open spec fn tf_greedy(b: Seq<u8>, o: int) -> Seq<TemplateField> decreases b.len() - o {
    match tf_size(b, o) { None => Seq::<TemplateField>::empty(), Some(w) => seq![tf_val(b, o)] + tf_greedy(b, o + w) }
}
pub open spec fn tf_greedy_end(b: Seq<u8>, o: int) -> int decreases b.len() - o {
    match tf_size(b, o) { None => o, Some(w) => tf_greedy_end(b, o + w) }
}
/// exactly k specifiers from offset o (RFC 7011: a template record has field_count specifiers)
pub open spec fn tf_walk(b: Seq<u8>, o: int, k: int) -> Option<int> decreases k {
    if k <= 0 { Some(o) } else { match tf_size(b, o) { None => None, Some(w) => tf_walk(b, o + w, k - 1) } }
}
pub open spec fn tf_vals(b: Seq<u8>, o: int, k: int) -> Seq<TemplateField> decreases k {
    if k <= 0 { Seq::<TemplateField>::empty() } else {
        match tf_size(b, o) { None => Seq::<TemplateField>::empty(), Some(w) => seq![tf_val(b, o)] + tf_vals(b, o + w, k - 1) } }
}

/// what a (complete-mode) field-specifier parser does on the suffix of b at offset o
pub open spec fn tf_step_post<'a>(b: Seq<u8>, o: int, i: &'a [u8], r: IResult<&'a [u8], TemplateField>) -> bool {
    match tf_size(b, o) {
        None => r is Err && r->Err_0 is Error,
        Some(w) => r is Ok && r->Ok_0.0@ == b.subrange(o + w, b.len() as int) && r->Ok_0.1 == tf_val(b, o),
    }
}
proof fn lemma_tf_post_at<'a>(b: Seq<u8>, o: int, i: &'a [u8], r: IResult<&'a [u8], TemplateField>)
    requires 0 <= o <= b.len(), i@ == b.subrange(o, b.len() as int), ipfix_tf_post(i, r),
    ensures tf_step_post(b, o, i, r),
{
    if i@.len() >= 4 {
        assert(be16(i@, 0) == be16(b, o) && be16(i@, 2) == be16(b, o + 2));
        if be16(i@, 0) > 32767 && i@.len() >= 8 {
            assert(be32(i@, 4) == be32(b, o + 4));
            lemma_sub_sub2(b, o, b.len() as int, 8, b.len() - o);
        } else if be16(i@, 0) <= 32767 {
            lemma_sub_sub2(b, o, b.len() as int, 4, b.len() - o);
        }
    }
}

/// k successes of a parser that satisfies ipfix_tf_post, started on the suffix at o, walk k specifiers
proof fn lemma_tf_many<'a, F: Fn(&'a [u8]) -> IResult<&'a [u8], TemplateField>>(h: F, b: Seq<u8>, o: int, k: int, ins: Seq<&'a [u8]>, vals: Seq<TemplateField>)
    requires
        forall|i: &'a [u8], r: IResult<&'a [u8], TemplateField>| #[trigger] h.ensures((i,), r) ==> ipfix_tf_post(i, r),
        0 <= k, 0 <= o <= b.len(),
        nom_c::count_ok(h, k, ins, vals), ins[0]@ == b.subrange(o, b.len() as int),
    ensures
        tf_walk(b, o, k) is Some,
        o <= tf_walk(b, o, k)->0 <= b.len(),
        ins[k]@ == b.subrange(tf_walk(b, o, k)->0, b.len() as int),
        vals == tf_vals(b, o, k),
    decreases k,
{
    if k == 0 {
        assert(vals =~= Seq::<TemplateField>::empty());
    } else {
        assert(h.ensures((ins[0],), Ok((ins[1], vals[0]))));
        lemma_tf_post_at(b, o, ins[0], Ok((ins[1], vals[0])));
        let w = tf_size(b, o)->0;
        let ins1 = ins.drop_first();
        let vals1 = vals.drop_first();
        assert(nom_c::count_ok(h, k - 1, ins1, vals1)) by {
            assert forall|j: int| 0 <= j < k - 1 implies h.ensures((#[trigger] ins1[j],), Ok((ins1[j + 1], vals1[j]))) by {
                assert(ins1[j] == ins[j + 1]);
                assert(h.ensures((ins[j + 1],), Ok((ins[j + 2], vals[j + 1]))));
            }
        }
        lemma_tf_many(h, b, o + w, k - 1, ins1, vals1);
        assert(ins1[k - 1] == ins[k]);
        assert(vals =~= seq![vals[0]] + vals1);
    }
}
/// if after k specifiers the next one does not fit, those k are exactly the greedy decoding
proof fn lemma_walk_is_greedy(b: Seq<u8>, o: int, k: int)
    requires 0 <= k, 0 <= o <= b.len(), tf_walk(b, o, k) is Some, tf_size(b, tf_walk(b, o, k)->0) is None,
    ensures tf_greedy(b, o) == tf_vals(b, o, k), tf_greedy_end(b, o) == tf_walk(b, o, k)->0,
    decreases k,
{
    if k > 0 {
        let w = tf_size(b, o)->0;
        lemma_walk_is_greedy(b, o + w, k - 1);
    } else {
        assert(tf_vals(b, o, 0) =~= Seq::<TemplateField>::empty());
    }
}

/// what Template::parse does: id, count, then specifiers greedily to the end of the input; the rest is padding
pub open spec fn ipfix_template_post<'a>(b: &'a [u8], r: IResult<&'a [u8], Template>) -> bool {
    if b@.len() < 4 { r is Err } else {
        &&& r is Ok
        &&& r->Ok_0.0@.len() == 0
        &&& r->Ok_0.1.template_id == be16(b@, 0) && r->Ok_0.1.field_count == be16(b@, 2)
        &&& r->Ok_0.1.fields@ == tf_greedy(b@, 4)
        &&& r->Ok_0.1.padding@ == b@.subrange(tf_greedy_end(b@, 4), b@.len() as int)
    }
}

impl Header {
//@ fn expanded variable_versions::ipfix /impl<'nom> nom_derive::Parse<.*> for Header/ parse_be
//@   result: r
//@   generics: <'nom>
//@   rules: R7 R9
//@   track: orig_i
//@   before "let i = orig_i;": proof { reveal(ipfix_header_dec); }
//@   ensures: fixed_post(orig_i, r, 14)
//@   ensures: r is Ok ==> r->Ok_0.1 == ipfix_header_dec(orig_i@, 0)
//@ end
}
impl FlowSetHeader {
//@ fn expanded variable_versions::ipfix /impl<'nom> nom_derive::Parse<.*> for FlowSetHeader/ parse_be
//@   result: r
//@   generics: <'nom>
//@   rules: R7 R9
//@   track: orig_i
//@   before "let i = orig_i;": proof { reveal(ipfix_flowset_header_dec); }
//@   ensures: fixed_post(orig_i, r, 4)
//@   ensures: r is Ok ==> r->Ok_0.1 == ipfix_flowset_header_dec(orig_i@, 0)
//@ end
}
impl TemplateField {
//@ fn expanded variable_versions::ipfix /impl<'nom> nom_derive::Parse<.*> for TemplateField/ parse_be
//@   result: r
//@   generics: <'nom>
//@   rules: R7 R9
//@   track: orig_i
//@   ensures: ipfix_tf_post(orig_i, r)
//@ end
//@ fn expanded variable_versions::ipfix /impl<'nom> nom_derive::Parse<.*> for TemplateField/ parse
//@   result: r
//@   generics: <'nom>
//@   ensures: ipfix_tf_post(orig_i, r)
//@ end
}
/// C05 / RFC 7011 3.4.1 for a set that carries ONE template record: if exactly field_count specifiers fit and
/// what follows is shorter than a specifier (padding), the decoded fields are exactly those field_count
/// specifiers and the rest is reported as padding.  (A set with a second template record does NOT satisfy the
/// hypothesis: its bytes are swallowed as further specifiers -- known finding, see known_findings.txt.)
pub proof fn thm_c05_single_template_record(b: Seq<u8>)
    requires b.len() >= 4, tf_walk(b, 4, be16(b, 2) as int) is Some, tf_size(b, tf_walk(b, 4, be16(b, 2) as int)->0) is None,
    ensures tf_greedy(b, 4) == tf_vals(b, 4, be16(b, 2) as int), tf_greedy_end(b, 4) == tf_walk(b, 4, be16(b, 2) as int)->0,
{
    lemma_walk_is_greedy(b, 4, be16(b, 2) as int);
}

/// the number of specifiers an options template record announces (field_count includes the scope fields; the
/// implementation tolerates scope_field_count > field_count by adding them, saturating)
pub open spec fn opt_combined(fc: u16, sc: u16) -> int {
    let extra: int = if fc >= sc { fc - sc } else { fc as int };
    if sc + extra > 65535 { 65535 } else { sc + extra }
}
pub open spec fn ipfix_options_template_post<'a>(b: &'a [u8], r: IResult<&'a [u8], OptionsTemplate>) -> bool {
    &&& (b@.len() < 6 ==> r is Err)
    &&& (r is Ok ==> {
        let n = opt_combined(be16(b@, 2), be16(b@, 4));
        &&& b@.len() >= 6 && tf_walk(b@, 6, n) is Some            // exactly the announced number of specifiers fit ...
        &&& r->Ok_0.0@.len() == 0
        &&& r->Ok_0.1.template_id == be16(b@, 0) && r->Ok_0.1.field_count == be16(b@, 2) && r->Ok_0.1.scope_field_count == be16(b@, 4)
        &&& r->Ok_0.1.fields@ == tf_vals(b@, 6, n)               // ... and are reported as sent
        &&& r->Ok_0.1.padding@ == b@.subrange(tf_walk(b@, 6, n)->0, b@.len() as int)
    })
}
/// every chain of the field-specifier parser started right after the 6-byte record header walks the specifiers
spec fn opt_chain_facts<'a>(b: Seq<u8>, i0: &'a [u8]) -> bool {
    forall|k: int, ins: Seq<&'a [u8]>, vals: Seq<TemplateField>|
        0 <= k && #[trigger] nom_c::count_ok(TemplateField::parse, k, ins, vals) && ins[0] == i0
        ==> tf_walk(b, 6, k) is Some && 6 <= tf_walk(b, 6, k)->0 <= b.len()
            && ins[k]@ == b.subrange(tf_walk(b, 6, k)->0, b.len() as int) && vals == tf_vals(b, 6, k)
}
proof fn lemma_opt_chain_all<'a>(b: Seq<u8>, i0: &'a [u8])
    requires b.len() >= 6, i0@ == b.subrange(6, b.len() as int),
    ensures opt_chain_facts(b, i0),
{
    assert forall|ii: &'a [u8], rr: IResult<&'a [u8], TemplateField>| #[trigger] call_ensures(TemplateField::parse, (ii,), rr) implies ipfix_tf_post(ii, rr) by {}
    assert forall|k: int, ins: Seq<&'a [u8]>, vals: Seq<TemplateField>|
        0 <= k && #[trigger] nom_c::count_ok(TemplateField::parse, k, ins, vals) && ins[0] == i0
        implies tf_walk(b, 6, k) is Some && 6 <= tf_walk(b, 6, k)->0 <= b.len()
            && ins[k]@ == b.subrange(tf_walk(b, 6, k)->0, b.len() as int) && vals == tf_vals(b, 6, k)
        by { lemma_tf_many(TemplateField::parse, b, 6, k, ins, vals); }
}

impl OptionsTemplate {
//@ fn expanded variable_versions::ipfix /impl<'nom> nom_derive::Parse<.*> for OptionsTemplate/ parse_be
//@   result: r
//@   generics: <'nom>
//@   rules: R7 R11
//@   before "let i = orig_i;": broadcast use lemma_sub_sub;
//@   before "let (i, fields) =": proof {
//@       assert(i@ == orig_i@.subrange(6, orig_i@.len() as int));
//@       assert(combined_count as int == opt_combined(field_count, scope_field_count));
//@       lemma_opt_chain_all(orig_i@, i);
//@   }
//@   ensures: ipfix_options_template_post(orig_i, r)
//@ end
//@ fn expanded variable_versions::ipfix /impl<'nom> nom_derive::Parse<.*> for OptionsTemplate/ parse
//@   result: r
//@   generics: <'nom>
//@   ensures: ipfix_options_template_post(orig_i, r)
//@ end
}

impl Template {
//@ fn expanded variable_versions::ipfix /impl<'nom> nom_derive::Parse<.*> for Template/ parse_be
//@   result: r
//@   generics: <'nom>
//@   prerules: R13 R14
//@   rules: R7
//@   track: orig_i
//@   ensures: ipfix_template_post(orig_i, r)
//@   before "let (i, fields) =": let ghost b = orig_i@; proof {
//@       assert(i@ == b.subrange(4, b.len() as int));
//@       assert forall|ii: &'nom [u8], rr: IResult<&'nom [u8], TemplateField>| #[trigger] __m0_fields.ensures((ii,), rr) implies ipfix_tf_post(ii, rr) by {
//@           let r1 = choose|r1: IResult<&'nom [u8], TemplateField>| call_ensures(TemplateField::parse_be, (ii,), r1) && (r1 is Ok ==> rr == r1)
//@                     && (r1 is Err ==> rr is Err && !(rr->Err_0 is Incomplete) && (r1->Err_0 is Failure <==> rr->Err_0 is Failure));
//@       }
//@       assert forall|k: int, ins: Seq<&'nom [u8]>, vals: Seq<TemplateField>|
//@           0 <= k && #[trigger] nom_c::count_ok(__m0_fields, k, ins, vals) && ins[0] == i
//@           implies tf_walk(b, 4, k) is Some && 4 <= tf_walk(b, 4, k)->0 <= b.len()
//@                   && ins[k]@ == b.subrange(tf_walk(b, 4, k)->0, b.len() as int) && vals == tf_vals(b, 4, k)
//@           by { lemma_tf_many(__m0_fields, b, 4, k, ins, vals); }
//@   }
//@   before "let (i, fields) =": let ghost i2 = i;
//@   after "nom::multi::many0(__m0_fields)(i)?;": proof {
//@       let (ins, k, e) = choose|ins: Seq<&'nom [u8]>, k: int, e: nom::Err<nom::error::Error<&'nom [u8]>>|
//@           0 <= k && #[trigger] nom_c::count_ok(__m0_fields, k, ins, fields@) && ins[0] == i2 && ins[k] == i
//@           && #[trigger] __m0_fields.ensures((ins[k],), Err(e)) && e is Error
//@           && forall|j: int| 0 <= j < k ==> (#[trigger] ins[j + 1])@.len() != ins[j]@.len();
//@       let end = tf_walk(b, 4, k)->0;
//@       assert(ipfix_tf_post(ins[k], Err(e)));
//@       lemma_tf_post_at(b, end, ins[k], Err(e));
//@       lemma_walk_is_greedy(b, 4, k);
//@   }
//@ end
//@ fn expanded variable_versions::ipfix /impl<'nom> nom_derive::Parse<.*> for Template/ parse
//@   result: r
//@   generics: <'nom>
//@   ensures: ipfix_template_post(orig_i, r)
//@ end
}
} // verus!
fn main() {}
