// UNIT ipfix.wrapper -- IPFixParser::parse, verbatim from src/variable_versions/ipfix.rs
//@ include prelude.rs
//@ include lib_types.rs
//@ include lib_spec.rs
verus! {
impl ParsedNetflow {
//@ stub stubs/parsed_netflow_new.rs
}
impl IPFix {
//@ stub stubs/ipfix_parse.rs
}
impl IPFixParser {
//@ fn src/variable_versions/ipfix.rs - /impl IPFixParser/ parse
//@   contract: stubs/ipfixparser_parse.rs
//@   prerules: R30
//@   bodystart: broadcast use lemma_cloned_u8;
//@ end
}
} // verus!
fn main() {}
