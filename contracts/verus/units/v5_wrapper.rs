// UNIT v5.wrapper -- V5Parser::parse, verbatim from src/static_versions/v5.rs
//@ include prelude.rs
//@ include lib_types.rs
//@ include lib_spec.rs
verus! {
impl ParsedNetflow {
//@ stub stubs/parsed_netflow_new.rs
}
impl V5 {
//@ stub stubs/v5_parse.rs
}
pub struct V5Parser;
impl V5Parser {
//@ fn src/static_versions/v5.rs - /impl V5Parser/ parse
//@   contract: stubs/v5parser_parse.rs
//@   prerules: R30
//@   bodystart: broadcast use lemma_cloned_u8;
//@ end
}
} // verus!
fn main() {}
