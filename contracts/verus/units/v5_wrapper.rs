// UNIT v5.wrapper -- V5Parser::parse, verbatim from src/static_versions/v5.rs
//@ include prelude.rs
//@ include lib_types.rs
//@ include lib_spec.rs
verus! {
impl ParsedNetflow {
//@ stub stubs/parsed_netflow_new.rs
}
impl V5 {
//@ stub stubs/v5_parse.rs
}
pub struct V5Parser;
impl V5Parser {
//@ fn src/static_versions/v5.rs - /impl V5Parser/ parse
//@   contract: stubs/v5parser_parse.rs
//@   closure 0: p | -> (o: ParsedNetflow) ensures o.remaining@ == p.0@, o.result == NetflowPacket::V5(p.1)
//@   closure 1: - | -> (o: NetflowParseError) ensures o matches NetflowParseError::Partial(pp) && pp.version == 5 && pp.remaining@ =~= packet@
//@   before "V5::parse(packet)": broadcast use lemma_cloned_u8;
//@ end
}
} // verus!
fn main() {}
