// UNIT ipfix.message -- nom-derive expansion of ipfix::IPFix (message header, then the sets inside the next
// length-16 bytes), src/variable_versions/ipfix.rs:53-69.  C02: a message consumes max(length,16) bytes; C05: the set
// loop gets exactly the bytes inside the message length; C14: fewer bytes than announced => Err BEFORE any set is
// interpreted, caches untouched.  The set loop (the body of the map_res closure) is replaced by a call of
// vf_ipfix_sets (R5), whose contract stubs/ipfix_sets.rs is discharged by V.ipfix.sets on the closure-converted loop.
//@ include prelude.rs
verus! {
#[verifier::external_body] pub struct FlowSetBody { _p: () }
#[verifier::external_body] pub struct IPFixParser { _p: () }
//@ type src/variable_versions/ipfix.rs - FlowSet
//@ type src/variable_versions/ipfix.rs - IPFix
//@ type src/variable_versions/ipfix.rs - Header
//@ type src/variable_versions/ipfix.rs - FlowSetHeader
}
//@ layout ipfix
//@ include ipfix_set_spec.rs
verus! {
//@ stub stubs/ipfix_sets.rs
impl Header {
    // V.ipfix.templates + K.ipfix.header
    #[verifier::external_body]
    fn parse_be<'a>(i: &'a [u8]) -> (r: IResult<&'a [u8], Header>)
        ensures fixed_post(i, r, 14), r is Ok ==> r->Ok_0.1 == ipfix_header_dec(i@, 0),
    { unimplemented!() }
}
pub open spec fn msg_body_len(h: Header) -> int { if h.length >= 16 { h.length - 16 } else { 0 } }
pub open spec fn ipfix_message_post<'a>(old_p: IPFixParser, new_p: IPFixParser, b: &'a [u8], r: IResult<&'a [u8], IPFix>) -> bool {
    if b@.len() < 14 || b@.len() < 14 + msg_body_len(ipfix_header_dec(b@, 0)) {
        r is Err && new_p == old_p           // truncated: nothing interpreted, caches untouched
    } else {
        let h = ipfix_header_dec(b@, 0);
        let l = msg_body_len(h);
        let (sets, _unread, st1) = sets_spec(old_p, b@.subrange(14, 14 + l));   // the set loop (V.ipfix.sets)
        &&& new_p == st1
        &&& r is Ok                               // a set that cannot be read is omitted with the rest (C07), never an error
        &&& r->Ok_0.1.header == h && r->Ok_0.1.flowsets@ =~= sets
        &&& r->Ok_0.0@ == b@.subrange(14 + l, b@.len() as int)       // consumes max(length,16) bytes
    }
}
impl IPFix {
//@ fn expanded variable_versions::ipfix /impl<'nom> IPFix/ parse_be
//@   result: r
//@   generics: <'nom>
//@   prerules: R15
//@   mapresbody: vf_ipfix_sets(i, parser)
//@   before "match ({ let i = __mr_o1;": proof {
//@       let b = orig_i@;
//@       assert(__mr_in@ == b.subrange(14, b.len() as int));
//@       let ln = __mr_o1@.len() as int;      // the bytes `take(..)` handed to the body parser (no name of /repo's locals is used)
//@       assert(ln == msg_body_len(header));
//@       lemma_sub_sub2(b, 14, b.len() as int, 0, ln);
//@       lemma_sub_sub2(b, 14, b.len() as int, ln, b.len() - 14);
//@   }
//@   ensures: ipfix_message_post(*old(parser), *final(parser), orig_i, r)
//@   ensures: r is Ok ==> is_suffix(r->Ok_0.0@, orig_i@)
//@ end
//@ fn expanded variable_versions::ipfix /impl<'nom> IPFix/ parse
//@   result: r
//@   generics: <'nom>
//@   ensures: ipfix_message_post(*old(parser), *final(parser), orig_i, r)
//@   ensures: r is Ok ==> is_suffix(r->Ok_0.0@, orig_i@)
//@ end
}
} // verus!
fn main() {}
