// UNIT v9.scope_field -- v9::ScopeDataField::parse and v9::TemplateField::parse_as_field_value, verbatim from
// src/variable_versions/v9.rs:345-375, 533-537.  C04: options data scope fields take exactly the template
// length and keep the scope kind; an unknown scope type is an error; a data field is decoded as the library's
// type for that field with the template's length.
//@ include prelude.rs
verus! {
#[verifier::external_body] pub struct V9Field { _p: () }
#[verifier::external_body] pub struct FieldDataType { _p: () }
#[verifier::external_body] pub struct FieldValue { _p: () }
impl Clone for V9Field { #[verifier::external_body] fn clone(&self) -> (r: Self) ensures r == *self { unimplemented!() } }
impl Copy for V9Field {}
//@ type src/variable_versions/v9_lookup.rs - ScopeFieldType
//@ type src/variable_versions/v9.rs - OptionsTemplateScopeField
//@ type src/variable_versions/v9.rs - TemplateField
//@ type src/variable_versions/v9.rs - ScopeDataField
//@ type src/variable_versions/v9.rs - OptionDataField
pub uninterp spec fn datatype_of(f: V9Field) -> FieldDataType;
impl V9Field {
    #[verifier::external_body] pub fn into(self) -> (r: FieldDataType) ensures r == datatype_of(self) { unimplemented!() }
}
pub uninterp spec fn fv_from(b: Seq<u8>, t: FieldDataType, len: u16) -> Option<(FieldValue, Seq<u8>)>;
pub open spec fn nom_view<T>(r: IResult<&[u8], T>) -> Option<(T, Seq<u8>)> {
    match r { Ok((rest, v)) => Some((v, rest@)), Err(_) => None }
}
impl FieldValue {
    #[verifier::external_body]
    pub fn from_field_type<'a>(remaining: &'a [u8], field_type: FieldDataType, field_length: u16) -> (r: IResult<&'a [u8], FieldValue>)
        ensures nom_view(r) == fv_from(remaining@, field_type, field_length),
    { unimplemented!() }
}
}
//@ include v9_options_spec.rs
verus! {
impl ScopeDataField {
//@ fn src/variable_versions/v9.rs - /impl ScopeDataField/ parse
//@   result: r
//@   before "let (new_input, field_value) =": broadcast use lemma_cloned_u8;
//@   contract: stubs/v9_scopedatafield_parse.rs
//@ end
}
impl TemplateField {
//@ fn src/variable_versions/v9.rs - /impl TemplateField/ parse_as_field_value
//@   result: r
//@   contract: stubs/v9_parse_as_field_value.rs
//@ end
}
} // verus!
fn main() {}
