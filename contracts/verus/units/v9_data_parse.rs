// UNIT v9.data.parse -- nom-derive expansion of v9::Data (src/variable_versions/v9.rs:377-387)
//@ include prelude.rs
//@ include v9_types.rs
verus! {
pub type Records = Vec<BTreeMap<usize, V9FieldPair>>;
pub uninterp spec fn v9_fp(b: Seq<u8>, t: Template) -> Option<(Records, Seq<u8>)>;
pub open spec fn nom_view<T>(r: IResult<&[u8], T>) -> Option<(T, Seq<u8>)> {
    match r { Ok((rest, v)) => Some((v, rest@)), Err(_) => None }
}
pub struct FieldParser;
impl FieldParser {
    #[verifier::external_body]
    fn parse<'a>(input: &'a [u8], template: Template) -> (r: IResult<&'a [u8], Records>)
        ensures nom_view(r) == v9_fp(input@, template),
    { unimplemented!() }
}
impl Data {
//@ fn expanded variable_versions::v9 /impl<'nom> Data/ parse_be
//@   generics: <'nom>
//@   rules: R7
//@   contract: stubs/v9_data_parse.rs
//@   closure 0: i: &'nom [u8] | -> (o: IResult<&'nom [u8], Records>) ensures parser.templates@.contains_key(flowset_id) ==> nom_view(o) == v9_fp(i@, parser.templates@[flowset_id])
//@   ensures: r is Ok && old(parser).templates@.contains_key(flowset_id) ==> (v9_fp(orig_i@, old(parser).templates@[flowset_id]) matches Some((recs, rest)) && recs == r->Ok_0.1.fields && r->Ok_0.1.padding@ == rest)
//@ end
//@ fn expanded variable_versions::v9 /impl<'nom> Data/ parse
//@   generics: <'nom>
//@   contract: stubs/v9_data_parse.rs
//@ end
}
} // verus!
fn main() {}
