// UNIT v9.data.parse -- nom-derive expansion of v9::Data (src/variable_versions/v9.rs:377-387)
//@ include prelude.rs
//@ include v9_types.rs
verus! {
pub type Records = Vec<BTreeMap<usize, V9FieldPair>>;
#[verifier::external_body] pub struct FieldDataType { _p: () }
}
//@ include v9_records_spec.rs
verus! {
pub struct FieldParser;
impl FieldParser {
//@ stub stubs/v9_fieldparser_parse.rs
}
impl Data {
//@ fn expanded variable_versions::v9 /impl<'nom> Data/ parse_be
//@   generics: <'nom>
//@   rules: R9b R7
//@   contract: stubs/v9_data_parse.rs
//@   ensures: r is Ok && old(parser).templates@.contains_key(flowset_id) ==> ({
//@           let t = old(parser).templates@[flowset_id];
//@           let (rows, rest) = recs_spec(t.fields@, orig_i@, rec_count(t.fields@, orig_i@));
//@           recs_rel(r->Ok_0.1.fields@, t.fields@, rows) && r->Ok_0.1.padding@ =~= rest })
//@ end
//@ fn expanded variable_versions::v9 /impl<'nom> Data/ parse
//@   generics: <'nom>
//@   contract: stubs/v9_data_parse.rs
//@ end
}
} // verus!
fn main() {}
