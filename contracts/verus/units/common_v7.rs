// UNIT common.v7 -- impl From<&V7> for NetflowCommon, verbatim from src/netflow_common.rs
// (`iter().map(..).collect()` replaced by its definition, R26; `addr.into()` through the R23 wrapper).
// C13, for EVERY number of records: version and timestamp (sys_up_time) are the header's; exactly one common flow per
// flow record, in order; addresses, ports, protocol number and name, first / last equal the record's fields; no MACs.
//@ include prelude.rs
verus! {
#[verifier::external_body] pub struct ProtocolTypes { _p: () }
impl Clone for ProtocolTypes { #[verifier::external_body] fn clone(&self) -> (r: Self) ensures r == *self { unimplemented!() } }
impl Copy for ProtocolTypes {}
#[verifier::external_type_specification] #[verifier::external_body] pub struct ExIpAddr(std::net::IpAddr);
pub use std::net::IpAddr;
//@ type src/static_versions/v7.rs - V7
//@ type src/static_versions/v7.rs - Header
//@ type src/static_versions/v7.rs - FlowSet
//@ type src/netflow_common.rs - NetflowCommon
//@ type src/netflow_common.rs - NetflowCommonFlowSet
/// IpAddr::from(Ipv4Addr) == IpAddr::V4(a)  (K.common.v7 checks this on the compiled code)
pub uninterp spec fn ip_v4(a: Ipv4Addr) -> IpAddr;
// R23 wrapper: `a.into()` for a: Ipv4Addr
#[verifier::external_body] pub fn vf_into(a: Ipv4Addr) -> (r: IpAddr) ensures r == ip_v4(a) { unimplemented!() }
pub open spec fn flow_of(set: FlowSet) -> NetflowCommonFlowSet {
    NetflowCommonFlowSet {
        src_addr: Some(ip_v4(set.src_addr)), dst_addr: Some(ip_v4(set.dst_addr)),
        src_port: Some(set.src_port), dst_port: Some(set.dst_port),
        protocol_number: Some(set.protocol_number), protocol_type: Some(set.protocol_type),
        first_seen: Some(set.first), last_seen: Some(set.last),
        src_mac: None, dst_mac: None,
    }
}
impl NetflowCommon {
//@ fn src/netflow_common.rs - /impl From<&V7> for NetflowCommon/ from
//@   result: r
//@   prerules: R26
//@   rules: R23
//@   ensures: r.version == value.header.version, r.timestamp == value.header.sys_up_time
//@   ensures: r.flowsets@.len() == value.flowsets@.len()
//@   ensures: forall|k: int| 0 <= k < value.flowsets@.len() ==> #[trigger] r.flowsets@[k] == flow_of(value.flowsets@[k])
//@   loop 0: invariant __m <= __mp.len(), __mp@ == value.flowsets@, __out@.len() == __m,
//@           forall|k: int| 0 <= k < __m ==> #[trigger] __out@[k] == flow_of(value.flowsets@[k]),
//@       decreases __mp.len() - __m
//@ end
}
} // verus!
fn main() {}
