// UNIT v7.roundtrip -- C08 as theorems over the two contracts proved on the real code:
//   V.v7.parse        : V7::parse(b) satisfies v7_parse_post (decoder == layout table)
//   V.v7.to_be_bytes  : V7::to_be_bytes(p)@ == v7_packet_enc(p) (encoder == layout table)
// Spec-only.
//@ include prelude.rs
verus! {
//@ type src/protocol.rs - ProtocolTypes
pub uninterp spec fn proto_of(n: u8) -> ProtocolTypes;
//@ type src/static_versions/v7.rs - V7
//@ type src/static_versions/v7.rs - Header
//@ type src/static_versions/v7.rs - FlowSet
}
//@ layout v7 +lemmas
verus! {
pub open spec fn v7_records_enc(s: Seq<FlowSet>) -> Seq<u8> decreases s.len() {
    if s.len() == 0 { Seq::<u8>::empty() } else { v7_records_enc(s.drop_last()) + v7_record_enc(s.last()) }
}
pub open spec fn v7_packet_enc(p: V7) -> Seq<u8> { v7_header_enc(p.header) + v7_records_enc(p.flowsets@) }
pub open spec fn v7_parse_post<'a>(b: &'a [u8], r: IResult<&'a [u8], V7>) -> bool {
    if b@.len() < 22 || b@.len() < 22 + 52 * (be16(b@, 0) as int) {
        r is Err
    } else {
        let n = be16(b@, 0) as int;
        &&& r is Ok
        &&& r->Ok_0.0@ == b@.subrange(22 + 52 * n, b@.len() as int)
        &&& r->Ok_0.1.header == v7_header_dec(b@, 0)
        &&& r->Ok_0.1.flowsets@.len() == n
        &&& forall|k: int| 0 <= k < n ==> #[trigger] r->Ok_0.1.flowsets@[k] == v7_record_dec(b@, 22 + 52 * k)
    }
}

proof fn lemma_recs_enc_dec(b: Seq<u8>, s: Seq<FlowSet>)
    requires b.len() >= 22 + 52 * s.len(), forall|k: int| 0 <= k < s.len() ==> #[trigger] s[k] == v7_record_dec(b, 22 + 52 * k)
    ensures v7_records_enc(s) == b.subrange(22, 22 + 52 * (s.len() as int))
    decreases s.len()
{
    if s.len() == 0 {
        assert(b.subrange(22, 22) =~= Seq::<u8>::empty());
    } else {
        let t = s.drop_last();
        assert forall|k: int| 0 <= k < t.len() implies #[trigger] t[k] == v7_record_dec(b, 22 + 52 * k) by { assert(t[k] == s[k]); }
        lemma_recs_enc_dec(b, t);
        let o = 22 + 52 * (s.len() - 1);
        assert(s.last() == s[s.len() - 1]);
        lemma_v7_record_enc_dec(b, o);
        lemma_seq_join(b, 22, o, o + 52);
    }
}

/// C08 (first half): re-export of a parsed packet == the bytes it occupied (version field + consumed bytes)
pub proof fn thm_c08_export_of_parse<'a>(b: &'a [u8], rest: &'a [u8], p: V7)
    requires v7_parse_post(b, Ok((rest, p))),
    ensures ({
        let n = be16(b@, 0) as int;
        &&& b@.len() >= 22 + 52 * n
        &&& v7_packet_enc(p) == seq![0u8, 7u8] + b@.subrange(0, 22 + 52 * n)
        &&& rest@ == b@.subrange(22 + 52 * n, b@.len() as int)
    }),
{
    let n = be16(b@, 0) as int;
    lemma_v7_header_enc_dec(b@, 0);
    assert(enc16(7) =~= seq![0u8, 7u8]);
    lemma_recs_enc_dec(b@, p.flowsets@);
    assert(b@.subrange(0, 22) + b@.subrange(22, 22 + 52 * n) =~= b@.subrange(0, 22 + 52 * n));
    assert((seq![0u8, 7u8] + b@.subrange(0, 22)) + b@.subrange(22, 22 + 52 * n) =~= seq![0u8, 7u8] + b@.subrange(0, 22 + 52 * n));
}

/// well-formed structure in the sense of C08: count == number of records; the two derived fields
/// (injected version, protocol name) are consistent with the fields they are derived from
pub open spec fn v7_wf(p: V7) -> bool {
    &&& p.header.count as int == p.flowsets@.len()
    &&& p.header.version == 7
    &&& forall|k: int| 0 <= k < p.flowsets@.len() ==> (#[trigger] p.flowsets@[k]).protocol_type == proto_of(p.flowsets@[k].protocol_number)
}

proof fn lemma_export_header(p: V7, b: Seq<u8>)
    requires v7_wf(p), seq![0u8, 7u8] + b == v7_packet_enc(p),
    ensures b.len() == 22 + 52 * p.flowsets@.len(), v7_header_dec(b, 0) == p.header, be16(b, 0) == p.header.count,
            b.subrange(22, b.len() as int) == v7_records_enc(p.flowsets@),
{
    let n = p.flowsets@.len() as int;
    let e = v7_packet_enc(p);
    lemma_v7_header_enc_len(p.header);
    lemma_recs_len(p.flowsets@);
    assert(e.len() == 24 + 52 * n);
    assert(b =~= e.subrange(2, e.len() as int));
    lemma_v7_header_enc_dec(b, 0);
    lemma_dec16(p.header.version);
    assert(enc16(p.header.version) =~= seq![0u8, 7u8]);
    assert(v7_header_enc(p.header) =~= e.subrange(0, 24));
    assert(enc16(7) + b.subrange(0, 22) =~= e.subrange(0, 24));
    lemma_v7_header_enc_inj(v7_header_dec(b, 0), p.header);
    lemma_v7_header_dec_fields(b, 0);
    assert(b.subrange(22, b.len() as int) =~= v7_records_enc(p.flowsets@));
}
proof fn lemma_rec_of_image(b: Seq<u8>, o: int, r: FlowSet)
    requires 0 <= o, o + 52 <= b.len(), b.subrange(o, o + 52) == v7_record_enc(r),
             r.protocol_type == proto_of(r.protocol_number),
    ensures v7_record_dec(b, o) == r,
{
    let d = v7_record_dec(b, o);
    lemma_v7_record_enc_dec(b, o);          // enc(d) == image == enc(r)
    lemma_v7_record_dec_fields(b, o);       // d.protocol_type == proto_of(d.protocol_number)
    lemma_rec_byte38(d);
    lemma_rec_byte38(r);                    // protocol_number is byte 38 of the image, for both
    lemma_v7_record_enc_inj(d, r);
}
proof fn lemma_export_record(s: Seq<FlowSet>, b: Seq<u8>, k: int)
    requires 0 <= k < s.len(), b.len() == 22 + 52 * s.len(), b.subrange(22, b.len() as int) == v7_records_enc(s),
             s[k].protocol_type == proto_of(s[k].protocol_number),
    ensures v7_record_dec(b, 22 + 52 * k) == s[k],
{
    lemma_recs_at(s, k);
    lemma_sub_sub2(b, 22, b.len() as int, 52 * k, 52 * k + 52);
    lemma_rec_of_image(b, 22 + 52 * k, s[k]);
}

/// C08 (second half): parsing the re-export of a well-formed structure yields an equal structure
pub proof fn thm_c08_parse_of_export<'a>(p: V7, b: &'a [u8], r: IResult<&'a [u8], V7>)
    requires
        v7_wf(p),
        seq![0u8, 7u8] + b@ == v7_packet_enc(p),     // b = to_be_bytes(p) minus the version field the dispatcher consumes
        v7_parse_post(b, r),                         // r = V7::parse(b)
    ensures
        r is Ok,
        r->Ok_0.1.header == p.header, r->Ok_0.1.flowsets@ == p.flowsets@, r->Ok_0.0@.len() == 0,
{
    lemma_export_header(p, b@);
    let n = p.flowsets@.len() as int;
    let q = r->Ok_0.1;
    assert forall|k: int| 0 <= k < n implies #[trigger] q.flowsets@[k] == p.flowsets@[k] by {
        lemma_export_record(p.flowsets@, b@, k);
    }
    assert(q.flowsets@ =~= p.flowsets@);
}
proof fn lemma_recs_len(s: Seq<FlowSet>) ensures v7_records_enc(s).len() == 52 * s.len() decreases s.len() {
    if s.len() > 0 { lemma_recs_len(s.drop_last()); lemma_v7_record_enc_len(s.last()); }
}
proof fn lemma_recs_at(s: Seq<FlowSet>, k: int) requires 0 <= k < s.len()
    ensures v7_records_enc(s).len() == 52 * s.len(), v7_records_enc(s).subrange(52 * k, 52 * k + 52) == v7_record_enc(s[k])
    decreases s.len()
{
    lemma_recs_len(s); lemma_recs_len(s.drop_last()); lemma_v7_record_enc_len(s.last());
    if k == s.len() - 1 {
        assert(v7_records_enc(s).subrange(52 * k, 52 * k + 52) =~= v7_record_enc(s.last()));
    } else {
        lemma_recs_at(s.drop_last(), k);
        assert(s.drop_last()[k] == s[k]);
        assert(v7_records_enc(s).subrange(52 * k, 52 * k + 52) =~= v7_records_enc(s.drop_last()).subrange(52 * k, 52 * k + 52));
    }
}
proof fn lemma_rec_byte38(r: FlowSet) ensures v7_record_enc(r).len() == 52, v7_record_enc(r)[38] == r.protocol_number {
    lemma_v7_record_enc_len(r);
    // protocol_number is the unique 1-byte field at offset 38: decode the image and compare
    lemma_v7_record_enc_dec(v7_record_enc(r), 0);
    let d = v7_record_dec(v7_record_enc(r), 0);
    assert(v7_record_enc(r).subrange(0, 52) =~= v7_record_enc(r));
    lemma_v7_record_dec_fields(v7_record_enc(r), 0);
    // d and r have equal images; make the derived field agree before using injectivity
    let r2 = FlowSet { protocol_type: d.protocol_type, ..r };
    assert(v7_record_enc(r2) == v7_record_enc(r));
    lemma_v7_record_enc_inj(d, r2);
    assert(d.protocol_number == v7_record_enc(r)[38]);
}

} // verus!
fn main() {}
