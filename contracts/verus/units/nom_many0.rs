// UNIT nom.many0 -- nom::multi::many0 ITSELF (generic element parser `f`): the closure it returns, nom's own source text from
// the cargo registry, closure-converted by tools/lift.py (build_nomfn).  The postcondition is the clause
// contracts/verus/nom_prims.rs ASSUMES for `many0` (used where nom-derive's `Vec<T>::parse_be` is inlined, R13).
// PARTIAL correctness: for an arbitrary `f` the loop need not terminate (a parser may return MORE input than it got; nom only
// guards against "same length"), so no `decreases` is claimed here (attribute below); the trusted specification it replaces
// made no termination claim either.  Where termination matters (IPFIX set loop, V9 options data) the R17 units prove it for
// the concrete element parser.
//@ include prelude.rs
verus! {
use crate::nom_c::count_ok;
#[verifier::exec_allows_no_decreases_clause]
//@ fn lifted:nom_many0 - /-/ vf_nom_many0
//@   result: r
//@   mutparam: i
//@   requires: forall|x: &'a [u8]| f.requires((x,))
//@   ensures: r is Ok ==> exists|ins: Seq<&'a [u8]>, k: int, e: nom::Err<nom::error::Error<&'a [u8]>>|
//@                 0 <= k && #[trigger] count_ok(f, k, ins, r->Ok_0.1@) && ins[0] == i__in && ins[k] == r->Ok_0.0
//@                 && #[trigger] f.ensures((ins[k],), Err(e)) && e is Error
//@                 && forall|j: int| 0 <= j < k ==> (#[trigger] ins[j + 1])@.len() != ins[j]@.len()
//@   ensures: r is Err ==> exists|ins: Seq<&'a [u8]>, vals: Seq<O>, k: int|
//@                 0 <= k && #[trigger] count_ok(f, k, ins, vals) && ins[0] == i__in
//@                 && ((exists|e: nom::Err<nom::error::Error<&'a [u8]>>| #[trigger] f.ensures((ins[k],), Err(e)) && !(e is Error))
//@                     || (exists|nx: &'a [u8], v: O| #[trigger] f.ensures((ins[k],), Ok((nx, v))) && nx@.len() == ins[k]@.len()))
//@   beforeloop 0: let ghost mut ins: Seq<&'a [u8]> = seq![i];
//@   loop 0: invariant forall|x: &'a [u8]| f.requires((x,)), count_ok(f, acc@.len() as int, ins, acc@), ins[0] == i__in, ins[acc@.len() as int] == i,
//@           forall|j: int| 0 <= j < acc@.len() ==> (#[trigger] ins[j + 1])@.len() != ins[j]@.len(),
//@   loopstart 0: let ghost k0 = acc@.len() as int; proof {
//@       let ghost rr: nom::IResult<&'a [u8], Vec<O>> = Ok((i, acc));
//@       assert(count_ok(f, k0, ins, rr->Ok_0.1@) && ins[k0] == rr->Ok_0.0);
//@   }
//@   loopend 0: proof {
//@       let ghost ins1 = ins.push(i);
//@       assert forall|j: int| 0 <= j < k0 + 1 implies f.ensures((#[trigger] ins1[j],), Ok((ins1[j + 1], acc@[j]))) by {
//@           if j < k0 { assert(ins1[j] == ins[j] && ins1[j + 1] == ins[j + 1]); }
//@       }
//@       assert forall|j: int| 0 <= j < k0 + 1 implies (#[trigger] ins1[j + 1])@.len() != ins1[j]@.len() by {
//@           if j < k0 { assert(ins1[j] == ins[j] && ins1[j + 1] == ins[j + 1]); }
//@       }
//@       ins = ins1;
//@   }
//@ end
} // verus!
fn main() {}
