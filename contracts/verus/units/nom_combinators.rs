// UNIT nom.combinators -- nom::combinator::{complete, cond, map} THEMSELVES: the closures they return, text taken on every run
// from the nom source in the cargo registry (version pinned by /repo/Cargo.lock), closure-converted by tools/lift.py
// (build_nomfn: the captured parser(s) / flag become parameters).  Each postcondition is the clause contracts/verus/nom_prims.rs
// ASSUMES for the combinator (with `h.ensures((i,), r)` read as "r is the result on i"), so those three trusted
// specifications are obligations here.
//@ include prelude.rs
verus! {
//@ fn lifted:nom_complete - /-/ vf_nom_complete
//@   result: r
//@   requires: forall|x: &'a [u8]| f.requires((x,))
//@   ensures: exists|r1: nom::IResult<&'a [u8], O>| #[trigger] f.ensures((input,), r1) && (r1 is Ok ==> r == r1)
//@                 && (r1 is Err ==> r is Err && !(r->Err_0 is Incomplete) && (r1->Err_0 is Failure <==> r->Err_0 is Failure))
//@ end
//@ fn lifted:nom_cond - /-/ vf_nom_cond
//@   result: r
//@   requires: forall|x: &'a [u8]| f.requires((x,))
//@   ensures: b ==> exists|r1: nom::IResult<&'a [u8], O>| #[trigger] f.ensures((input,), r1) && (r1 is Err ==> r is Err && r->Err_0 == r1->Err_0)
//@                 && (r1 is Ok ==> r is Ok && r->Ok_0.0 == r1->Ok_0.0 && r->Ok_0.1 == Some(r1->Ok_0.1))
//@   ensures: !b ==> r is Ok && r->Ok_0.0 == input && r->Ok_0.1 is None
//@ end
//@ fn lifted:nom_map - /-/ vf_nom_map
//@   result: r
//@   requires: forall|x: &'a [u8]| parser.requires((x,)), forall|v: O1| f.requires((v,))
//@   ensures: exists|r1: nom::IResult<&'a [u8], O1>| #[trigger] parser.ensures((input,), r1) && (r1 is Err ==> r is Err && r->Err_0 == r1->Err_0)
//@                 && (r1 is Ok ==> r is Ok && r->Ok_0.0 == r1->Ok_0.0 && f.ensures((r1->Ok_0.1,), r->Ok_0.1))
//@ end
} // verus!
fn main() {}
