// UNIT nom.count -- nom::multi::count ITSELF: the closure it returns, text taken on every run from the nom source in the
// cargo registry (version pinned by /repo/Cargo.lock) and closure-converted by tools/lift.py (build_nomfn): the captured
// parser `f` and `count` become parameters.  The postcondition is the one contracts/verus/nom_prims.rs ASSUMES for `count`
// (same clauses over the same `count_ok` chain predicate, with `h.ensures((i,), r)` read as "r is the result on i"),
// so that trusted specification is an obligation here.  V5/V7 packet parsers, V9 templates and IPFIX options templates call it.
//@ include prelude.rs
verus! {
use crate::nom_c::count_ok;
//@ fn lifted:nom_count - /-/ vf_nom_count
//@   result: r
//@   requires: forall|x: &'a [u8]| f.requires((x,))
//@   ensures: r is Ok ==> exists|ins: Seq<&'a [u8]>| #[trigger] count_ok(f, count as int, ins, r->Ok_0.1@)
//@                 && ins[0] == i && ins[count as int] == r->Ok_0.0
//@   ensures: r is Err ==> exists|ins: Seq<&'a [u8]>, vals: Seq<O>, k: int, e: nom::Err<nom::error::Error<&'a [u8]>>|
//@                 0 <= k < count && #[trigger] count_ok(f, k, ins, vals) && ins[0] == i
//@                 && #[trigger] f.ensures((ins[k],), Err(e)) && (e is Error <==> r->Err_0 is Error)
//@   beforefor 0: let ghost mut ins: Seq<&'a [u8]> = seq![i];
//@   forloop 0: it0 | invariant forall|x: &'a [u8]| f.requires((x,)), count_ok(f, it0.index@, ins, res@), ins[0] == i, ins[it0.index@] == input, 0 <= it0.index@ <= count
//@   forend 0: proof {
//@       let ghost ins1 = ins.push(input);
//@       assert forall|j: int| 0 <= j < it0.index@ + 1 implies f.ensures((#[trigger] ins1[j],), Ok((ins1[j + 1], res@[j]))) by {
//@           if j < it0.index@ { assert(ins1[j] == ins[j] && ins1[j + 1] == ins[j + 1]); }
//@       }
//@       ins = ins1;
//@   }
//@   afterfor 0: proof {
//@       let ghost rr: nom::IResult<&'a [u8], Vec<O>> = Ok((input, res));
//@       assert(count_ok(f, count as int, ins, rr->Ok_0.1@) && ins[0] == i && ins[count as int] == rr->Ok_0.0);
//@   }
//@   before "return Err(nom::Err::Error(e));": proof {
//@       assert(count_ok(f, it0.index@, ins, res@) && f.ensures((ins[it0.index@],), Err(nom::Err::Error(e))));
//@   }
//@   before "return Err(e);": proof {
//@       assert(count_ok(f, it0.index@, ins, res@) && f.ensures((ins[it0.index@],), Err(e)));
//@   }
//@ end
} // verus!
fn main() {}
