// UNIT ipfix.get_fields -- the two required-method impls of trait ipfix::CommonTemplate, verbatim from
// src/variable_versions/ipfix.rs (`impl CommonTemplate for Template`, `impl CommonTemplate for OptionsTemplate`).
// V.ipfix.is_valid and V.ipfix.records are proved against `get_fields() == the template's field vector`;
// this unit discharges that clause on the two one-line impls (trait impl -> inherent fn, R6).
//@ include prelude.rs
verus! {
#[verifier::external_body] pub struct IPFixField { _p: () }
//@ type src/variable_versions/ipfix.rs - TemplateField
//@ type src/variable_versions/ipfix.rs - Template
//@ type src/variable_versions/ipfix.rs - OptionsTemplate
impl Template {
//@ fn src/variable_versions/ipfix.rs - /impl CommonTemplate for Template/ get_fields
//@   result: r
//@   ensures: r@ == self.fields@, r@.len() == self.fields@.len()
//@ end
}
impl OptionsTemplate {
//@ fn src/variable_versions/ipfix.rs - /impl CommonTemplate for OptionsTemplate/ get_fields
//@   result: r
//@   ensures: r@ == self.fields@, r@.len() == self.fields@.len()
//@ end
}
} // verus!
fn main() {}
