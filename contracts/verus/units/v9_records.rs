// UNIT v9.records -- v9::FieldParser::parse, FieldParser::parse_data_field and Template::get_total_size, verbatim from
// src/variable_versions/v9.rs:398-404, 452-531 (folds replaced by their definition, R16; enumerate loop, R18).
// C04: a data flowset body is split into floor(body / record size) records; record k is decoded from where record
// k-1 ended; value i of a record is FieldValue::from_field_type on exactly the bytes left after value i-1, with the
// type and length the template gives field i; the map of a record has exactly the keys 0..n-1 in template order; no
// record is dropped, duplicated or reordered; what is left is returned as padding.  C01: no division by zero.
//@ include prelude.rs
verus! {
#[verifier::external_body] pub struct V9Field { _p: () }
#[verifier::external_body] pub struct FieldDataType { _p: () }
#[verifier::external_body] pub struct FieldValue { _p: () }
impl Clone for V9Field { #[verifier::external_body] fn clone(&self) -> (r: Self) ensures r == *self { unimplemented!() } }
impl Copy for V9Field {}
//@ alias src/variable_versions/v9.rs - V9FieldPair
//@ type src/variable_versions/v9.rs - TemplateField
//@ type src/variable_versions/v9.rs - Template
impl Clone for Template { #[verifier::external_body] fn clone(&self) -> (r: Self) ensures r == *self { unimplemented!() } }
}
//@ include v9_records_spec.rs
verus! {
impl TemplateField {
//@ stub stubs/v9_parse_as_field_value.rs
}
pub open spec fn opt_eq(a: Option<(Seq<FieldValue>, Seq<u8>)>, b: Option<(Seq<FieldValue>, Seq<u8>)>) -> bool {
    match (a, b) { (None, None) => true, (Some((x, r)), Some((y, s))) => x =~= y && r =~= s, _ => false }
}
pub open spec fn after(done: Seq<FieldValue>, x: Option<(Seq<FieldValue>, Seq<u8>)>) -> Option<(Seq<FieldValue>, Seq<u8>)> {
    match x { None => None, Some((vs, r)) => Some((done + vs, r)) }
}
proof fn lemma_field_step(fields: Seq<TemplateField>, k: int, b: Seq<u8>, done: Seq<FieldValue>)
    requires 0 <= k < fields.len(), fv_from(b, datatype_of(fields[k].field_type), fields[k].field_length) is Some,
    ensures ({ let s = fv_from(b, datatype_of(fields[k].field_type), fields[k].field_length)->Some_0;
               opt_eq(after(done, rec_vals(fields, k, b)), after(done.push(s.0), rec_vals(fields, k + 1, s.1))) }),
{
    let s = fv_from(b, datatype_of(fields[k].field_type), fields[k].field_length)->Some_0;
    let x = rec_vals(fields, k + 1, s.1);
    if x is Some { assert(done + (seq![s.0] + x->Some_0.0) =~= done.push(s.0) + x->Some_0.0); }
}
pub open spec fn rows_eq(a: (Seq<Seq<FieldValue>>, Seq<u8>), b: (Seq<Seq<FieldValue>>, Seq<u8>)) -> bool { a.0 =~= b.0 && a.1 =~= b.1 }
pub open spec fn rows_after(done: Seq<Seq<FieldValue>>, x: (Seq<Seq<FieldValue>>, Seq<u8>)) -> (Seq<Seq<FieldValue>>, Seq<u8>) { (done + x.0, x.1) }
proof fn lemma_row_step(fields: Seq<TemplateField>, b: Seq<u8>, n: int, done: Seq<Seq<FieldValue>>)
    requires n > 0, rec_vals(fields, 0, b) is Some,
    ensures rows_eq(rows_after(done, recs_spec(fields, b, n)),
                    rows_after(done.push(rec_vals(fields, 0, b)->Some_0.0), recs_spec(fields, rec_vals(fields, 0, b)->Some_0.1, n - 1))),
{
    let s = rec_vals(fields, 0, b)->Some_0;
    let x = recs_spec(fields, s.1, n - 1);
    assert(done + (seq![s.0] + x.0) =~= done.push(s.0) + x.0);
}
proof fn lemma_row_stuck(fields: Seq<TemplateField>, b: Seq<u8>, n: int)
    requires rec_vals(fields, 0, b) is None,
    ensures recs_spec(fields, b, n) == (Seq::<Seq<FieldValue>>::empty(), b),
{
}

impl Template {
//@ fn src/variable_versions/v9.rs - /impl Template/ get_total_size
//@   result: r
//@   prerules: R16
//@   acctype: u16
//@   ensures: r as int == total_size(self.fields@, self.fields@.len() as int)
//@   loop 0: invariant __k <= __it.len(), __it@ == self.fields@, __acc as int == total_size(self.fields@, __k as int),
//@       decreases __it.len() - __k
//@ end
}
pub struct FieldParser;
impl FieldParser {
//@ fn src/variable_versions/v9.rs - /impl FieldParser/ parse_data_field
//@   result: r
//@   mutparam: input
//@   prerules: R18
//@   ensures: match rec_vals(template.fields@, 0, input__in@) {
//@           None => r is Err,
//@           Some((vs, rest)) => r is Ok && r->Ok_0.0@ =~= rest && map_is(r->Ok_0.1@, template.fields@, vs, template.fields@.len() as int) }
//@   beforeloop 0: let ghost mut done = Seq::<FieldValue>::empty();
//@       proof { assert(done + rec_vals(template.fields@, 0, input@)->Some_0.0 =~= rec_vals(template.fields@, 0, input@)->Some_0.0); }
//@   loop 0: invariant __j <= __en.len(), __en@ == template.fields@,
//@           map_is(data_field@, template.fields@, done, __j as int),
//@           opt_eq(after(done, rec_vals(template.fields@, __j as int, input@)), rec_vals(template.fields@, 0, input__in@)),
//@       decreases __en.len() - __j
//@   loopstart 0: let ghost bk = input@; let ghost jk = __j as int;
//@   loopend 0: proof {
//@       lemma_field_step(template.fields@, jk, bk, done);
//@       done = done.push(fv_from(bk, datatype_of(template.fields@[jk].field_type), template.fields@[jk].field_length)->Some_0.0);
//@   }
//@ end
//@ fn src/variable_versions/v9.rs - /impl FieldParser/ parse
//@   result: r
//@   prerules: R16
//@   rules: R11
//@   contract: stubs/v9_fieldparser_parse.rs
//@   beforeloop 0: let ghost n = record_count as int; let ghost mut rows = Seq::<Seq<FieldValue>>::empty();
//@       proof { assert(rows + recs_spec(template.fields@, input@, n).0 =~= recs_spec(template.fields@, input@, n).0); }
//@   loop 0: invariant __k <= record_count, n == record_count as int,
//@           recs_rel(__acc.1@, template.fields@, rows),
//@           rows_eq(rows_after(rows, recs_spec(template.fields@, __acc.0@, n - __k)), recs_spec(template.fields@, input@, n)),
//@       decreases record_count - __k
//@   loopstart 0: let ghost bk = __acc.0@;
//@   loopend 0: proof {
//@       lemma_row_step(template.fields@, bk, n - (__k - 1), rows);
//@       rows = rows.push(rec_vals(template.fields@, 0, bk)->Some_0.0);
//@   }
//@ end
}
} // verus!
fn main() {}
