// UNIT ipfix.data.parse -- nom-derive expansion of ipfix::Data / ipfix::OptionsData
// (src/variable_versions/ipfix.rs:218-242).  C06: decoding a data set never changes the caches and uses
// the template cached under the set id in *this* parser; C07: the unwrap_or_default() fallback cannot
// produce records (absent id => Err).
//@ include prelude.rs
verus! {
#[verifier::external_body] pub struct IPFixField { _p: () }
#[verifier::external_body] pub struct FieldValue { _p: () }
//@ alias src/variable_versions/ipfix.rs - TemplateId
//@ type src/variable_versions/ipfix.rs - IPFixParser
//@ type src/variable_versions/ipfix.rs - Template
//@ type src/variable_versions/ipfix.rs - OptionsTemplate
//@ type src/variable_versions/ipfix.rs - TemplateField
//@ type src/variable_versions/ipfix.rs - Data
//@ type src/variable_versions/ipfix.rs - OptionsData

//@ alias src/variable_versions/ipfix.rs - IPFixFieldPair
pub type Records = Vec<BTreeMap<usize, IPFixFieldPair>>;
}
//@ include ipfix_records_spec.rs
verus! {
pub struct FieldParser;
impl FieldParser {
//@ stub stubs/ipfix_fieldparser_parse.rs
}
pub trait CommonTemplate: Sized {
    spec fn fields_spec(&self) -> Seq<TemplateField>;
    fn get_fields(&self) -> (r: &Vec<TemplateField>) ensures r@ == self.fields_spec();
}
impl CommonTemplate for Template {
    open spec fn fields_spec(&self) -> Seq<TemplateField> { self.fields@ }
    #[verifier::external_body]
    fn get_fields(&self) -> (r: &Vec<TemplateField>) { &self.fields }
}
impl CommonTemplate for OptionsTemplate {
    open spec fn fields_spec(&self) -> Seq<TemplateField> { self.fields@ }
    #[verifier::external_body]
    fn get_fields(&self) -> (r: &Vec<TemplateField>) { &self.fields }
}
// derive(Clone)/derive(Default)
impl Clone for Template { #[verifier::external_body] fn clone(&self) -> (r: Self) ensures r == *self { unimplemented!() } }
impl Clone for OptionsTemplate { #[verifier::external_body] fn clone(&self) -> (r: Self) ensures r == *self { unimplemented!() } }
impl Default for Template { #[verifier::external_body] fn default() -> (r: Self) ensures r.fields@.len() == 0 { unimplemented!() } }
impl Default for OptionsTemplate { #[verifier::external_body] fn default() -> (r: Self) ensures r.fields@.len() == 0 { unimplemented!() } }

pub open spec fn data_post<'a>(cached: Option<Seq<TemplateField>>, b: &'a [u8], fields: Records, padding: Seq<u8>, ok: bool) -> bool {
    match cached {
        None => !ok,                                         // C07: nothing cached under this id => no records
        Some(fs) => ok ==> fs.len() > 0 && (irecs(fs, b@) matches Some((rows, rest)) && out_view(fields@) =~= flat_maps(fs, rows) && padding =~= rest),
    }
}

impl Data {
//@ fn expanded variable_versions::ipfix /impl<'nom> Data/ parse_be
//@   generics: <'nom>
//@   rules: R9b R7 R10
//@   contract: stubs/ipfix_data_parse.rs
//@   ensures: data_post(if old(parser).templates@.contains_key(set_id) { Some(old(parser).templates@[set_id].fields@) } else { None }, orig_i, r->Ok_0.1.fields, r->Ok_0.1.padding@, r is Ok)
//@   ensures: r is Ok ==> r->Ok_0.0@.len() == 0
//@ end
//@ fn expanded variable_versions::ipfix /impl<'nom> Data/ parse
//@   generics: <'nom>
//@   contract: stubs/ipfix_data_parse.rs
//@   ensures: data_post(if old(parser).templates@.contains_key(set_id) { Some(old(parser).templates@[set_id].fields@) } else { None }, orig_i, r->Ok_0.1.fields, r->Ok_0.1.padding@, r is Ok)
//@ end
}
impl OptionsData {
//@ fn expanded variable_versions::ipfix /impl<'nom> OptionsData/ parse_be
//@   generics: <'nom>
//@   rules: R9b R7 R10
//@   contract: stubs/ipfix_optionsdata_parse.rs
//@   ensures: data_post(if old(parser).options_templates@.contains_key(set_id) { Some(old(parser).options_templates@[set_id].fields@) } else { None }, orig_i, r->Ok_0.1.fields, r->Ok_0.1.padding@, r is Ok)
//@   ensures: r is Ok ==> r->Ok_0.0@.len() == 0
//@ end
//@ fn expanded variable_versions::ipfix /impl<'nom> OptionsData/ parse
//@   generics: <'nom>
//@   contract: stubs/ipfix_optionsdata_parse.rs
//@   ensures: data_post(if old(parser).options_templates@.contains_key(set_id) { Some(old(parser).options_templates@[set_id].fields@) } else { None }, orig_i, r->Ok_0.1.fields, r->Ok_0.1.padding@, r is Ok)
//@ end
}

} // verus!
fn main() {}
