// Shared: what ipfix::CommonTemplate::is_valid decides (proved by V.ipfix.is_valid, used by V.ipfix.flowsetbody):
// a template record is cached only if at least one of its fields has a non-zero length.  Needs TemplateField in scope.
verus! {
pub open spec fn fields_valid(fs: Seq<TemplateField>) -> bool {
    exists|j: int| 0 <= j < fs.len() && (#[trigger] fs[j]).field_length > 0
}
} // verus!
