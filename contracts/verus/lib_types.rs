// lib-level data types, copied from the working tree; the four packet payload types and the two
// template-cache types are opaque here (this unit never looks inside them).
verus! {
#[verifier::external_body] pub struct V5 { _p: () }
#[verifier::external_body] pub struct V7 { _p: () }
#[verifier::external_body] pub struct V9 { _p: () }
#[verifier::external_body] pub struct IPFix { _p: () }
#[verifier::external_body] pub struct V9Parser { _p: () }
#[verifier::external_body] pub struct IPFixParser { _p: () }
//@ type src/lib.rs - NetflowPacket
//@ type src/lib.rs - NetflowParser
//@ type src/lib.rs - ParsedNetflow
//@ type src/lib.rs - NetflowPacketError
//@ type src/lib.rs - NetflowParseError
//@ type src/lib.rs - PartialParse
//@ type src/lib.rs - GenericNetflowHeader
}
