// Shared specification of one V9 options data record (v9::OptionsData::parse_be and its two field loops).
// Needs ScopeFieldType, V9Field, OptionsTemplateScopeField, TemplateField, ScopeDataField, OptionDataField in scope.
verus! {
pub open spec fn scope_bytes(f: ScopeDataField) -> Seq<u8> {
    match f { ScopeDataField::System(v) => v@, ScopeDataField::Interface(v) => v@, ScopeDataField::LineCard(v) => v@,
              ScopeDataField::NetFlowCache(v) => v@, ScopeDataField::Template(v) => v@ }
}
pub open spec fn scope_kind_ok(f: ScopeDataField, t: ScopeFieldType) -> bool {
    match (f, t) {
        (ScopeDataField::System(_), ScopeFieldType::System) => true,
        (ScopeDataField::Interface(_), ScopeFieldType::Interface) => true,
        (ScopeDataField::LineCard(_), ScopeFieldType::LineCard) => true,
        (ScopeDataField::NetFlowCache(_), ScopeFieldType::NetflowCache) => true,
        (ScopeDataField::Template(_), ScopeFieldType::Template) => true,
        _ => false,
    }
}
/// one scope value read at the front of b under scope field specifier tf: (scope kind, exactly field_length bytes) and
/// the bytes after it; None if fewer bytes are left or the scope type is not one of RFC 3954's five
pub open spec fn sdf_step(tf: OptionsTemplateScopeField, b: Seq<u8>) -> Option<((ScopeFieldType, Seq<u8>), Seq<u8>)> {
    if b.len() < tf.field_length || tf.field_type is Unknown { None }
    else { Some(((tf.field_type, b.subrange(0, tf.field_length as int)), b.subrange(tf.field_length as int, b.len() as int))) }
}
pub open spec fn sdf_post<'a>(input: &'a [u8], tf: OptionsTemplateScopeField, r: IResult<&'a [u8], ScopeDataField>) -> bool {
    match sdf_step(tf, input@) {
        None => r is Err && r->Err_0 is Error,
        Some((v, rest)) => r is Ok && scope_kind_ok(r->Ok_0.1, v.0) && scope_bytes(r->Ok_0.1) =~= v.1 && r->Ok_0.0@ =~= rest,
    }
}
/// one option value read at the front of b under field specifier tf: (field type, exactly field_length bytes)
pub open spec fn odf_step(tf: TemplateField, b: Seq<u8>) -> Option<((V9Field, Seq<u8>), Seq<u8>)> {
    if b.len() < tf.field_length { None }
    else { Some(((tf.field_type, b.subrange(0, tf.field_length as int)), b.subrange(tf.field_length as int, b.len() as int))) }
}
/// the scope values of one record: one per scope field specifier, in template order, each read from where the previous
/// one ended; the walk ends early (without error) at the first specifier that cannot be read; a zero-length
/// specifier makes no progress and fails the record (nom's many0 guard): None
pub open spec fn scope_spec(fields: Seq<&OptionsTemplateScopeField>, b: Seq<u8>) -> Option<(Seq<(ScopeFieldType, Seq<u8>)>, Seq<u8>)>
    decreases fields.len()
{
    if fields.len() == 0 { Some((Seq::<(ScopeFieldType, Seq<u8>)>::empty(), b)) } else {
        match sdf_step(*fields[0], b) {
            None => Some((Seq::<(ScopeFieldType, Seq<u8>)>::empty(), b)),
            Some((v, rest)) => if rest.len() == b.len() { None } else {
                match scope_spec(fields.drop_first(), rest) { None => None, Some((vs, r)) => Some((seq![v] + vs, r)) }
            },
        }
    }
}
pub open spec fn opts_spec(fields: Seq<&TemplateField>, b: Seq<u8>) -> Option<(Seq<(V9Field, Seq<u8>)>, Seq<u8>)>
    decreases fields.len()
{
    if fields.len() == 0 { Some((Seq::<(V9Field, Seq<u8>)>::empty(), b)) } else {
        match odf_step(*fields[0], b) {
            None => Some((Seq::<(V9Field, Seq<u8>)>::empty(), b)),
            Some((v, rest)) => if rest.len() == b.len() { None } else {
                match opts_spec(fields.drop_first(), rest) { None => None, Some((vs, r)) => Some((seq![v] + vs, r)) }
            },
        }
    }
}
pub open spec fn sviews_ok(out: Seq<ScopeDataField>, vals: Seq<(ScopeFieldType, Seq<u8>)>) -> bool {
    out.len() == vals.len() && forall|j: int| 0 <= j < out.len() ==> scope_kind_ok(#[trigger] out[j], vals[j].0) && scope_bytes(out[j]) =~= vals[j].1
}
pub open spec fn oviews_ok(out: Seq<OptionDataField>, vals: Seq<(V9Field, Seq<u8>)>) -> bool {
    out.len() == vals.len() && forall|j: int| 0 <= j < out.len() ==> (#[trigger] out[j]).field_type == vals[j].0 && out[j].field_value@ =~= vals[j].1
}
pub open spec fn refs<'a, T>(s: Seq<T>) -> Seq<&'a T> { Seq::new(s.len(), |j: int| &s[j]) }
} // verus!
