// Shared specification of the data-record export loops of V9::to_be_bytes / IPFix::to_be_bytes
// (`for rec in data.fields.iter() { for (_, (_, v)) in rec.iter() { out.extend_from_slice(&v.to_be_bytes()?); } }`).
// Needs FieldValue and VfPair (= V9FieldPair / IPFixFieldPair) in scope.
verus! {
/// semantic function of FieldValue::to_be_bytes (leaf contracts K.rt.*): Some(bytes) or None when it is Err
pub uninterp spec fn fv_enc(v: FieldValue) -> Option<Seq<u8>>;
/// the pairs of a record map in ITERATION order.  ASSUMED (std documentation of BTreeMap::iter): ascending key order;
/// vstd specifies `iter()` only as a duplicate-free enumeration of the map's pairs.
pub uninterp spec fn bt_seq<'a>(m: &'a BTreeMap<usize, VfPair>) -> Seq<(&'a usize, &'a VfPair)>;
/// wire image of the first k values of one record, in iteration order
pub open spec fn rec_enc(m: &BTreeMap<usize, VfPair>, k: int) -> Seq<u8>
    decreases k
{
    if k <= 0 { Seq::<u8>::empty() } else { rec_enc(m, k - 1) + fv_enc(bt_seq(m)[k - 1].1.1)->Some_0 }
}
/// wire image of the first n records: every value of every record, record after record
pub open spec fn recs_enc(s: Seq<BTreeMap<usize, VfPair>>, n: int) -> Seq<u8>
    decreases n
{
    if n <= 0 { Seq::<u8>::empty() } else { recs_enc(s, n - 1) + rec_enc(&s[n - 1], s[n - 1]@.len() as int) }
}
} // verus!
