// Shared specification of the V9 data-record decoder (v9::FieldParser::parse / parse_data_field).
// Needs V9Field, FieldDataType, FieldValue, TemplateField, Template, V9FieldPair in scope.
verus! {
pub uninterp spec fn datatype_of(f: V9Field) -> FieldDataType;
/// semantic function of FieldValue::from_field_type (leaf contracts: K.fv.from.*)
pub uninterp spec fn fv_from(b: Seq<u8>, t: FieldDataType, len: u16) -> Option<(FieldValue, Seq<u8>)>;
pub open spec fn nom_view<T>(r: IResult<&[u8], T>) -> Option<(T, Seq<u8>)> {
    match r { Ok((rest, v)) => Some((v, rest@)), Err(_) => None }
}
/// record size: the sum of the first k field lengths (saturating at 65535, as the library computes it)
pub open spec fn total_size(fields: Seq<TemplateField>, k: int) -> int
    decreases k
{
    if k <= 0 { 0 } else {
        let s = total_size(fields, k - 1) + fields[k - 1].field_length;
        if s > 65535 { 65535 } else { s }
    }
}
/// the values of fields k.. of one record read from the front of b, in template order, and the bytes after them;
/// None if one of them cannot be decoded
pub open spec fn rec_vals(fields: Seq<TemplateField>, k: int, b: Seq<u8>) -> Option<(Seq<FieldValue>, Seq<u8>)>
    decreases fields.len() - k
{
    if k >= fields.len() || k < 0 { Some((Seq::<FieldValue>::empty(), b)) } else {
        match fv_from(b, datatype_of(fields[k].field_type), fields[k].field_length) {
            None => None,
            Some((v, rest)) => match rec_vals(fields, k + 1, rest) {
                None => None,
                Some((vs, r)) => Some((seq![v] + vs, r)),
            },
        }
    }
}
/// a record map holds exactly the first n fields: key i -> (type of field i, value i)
pub open spec fn map_is(m: Map<usize, V9FieldPair>, fields: Seq<TemplateField>, vals: Seq<FieldValue>, n: int) -> bool {
    &&& vals.len() == n
    &&& n <= fields.len()
    &&& forall|i: usize| #[trigger] m.dom().contains(i) <==> (i as int) < n
    &&& forall|i: usize| (i as int) < n ==> #[trigger] m[i] == (fields[i as int].field_type, vals[i as int])
}
/// up to n records read one after the other; reading stops at the first record that cannot be decoded.
/// Result: the value rows and the unread bytes (the flowset's padding)
pub open spec fn recs_spec(fields: Seq<TemplateField>, b: Seq<u8>, n: int) -> (Seq<Seq<FieldValue>>, Seq<u8>)
    decreases n
{
    if n <= 0 { (Seq::<Seq<FieldValue>>::empty(), b) } else {
        match rec_vals(fields, 0, b) {
            None => (Seq::<Seq<FieldValue>>::empty(), b),
            Some((vs, rest)) => {
                let (more, r) = recs_spec(fields, rest, n - 1);
                (seq![vs] + more, r)
            },
        }
    }
}
/// floor(body / record size) records (C04); a zero-size template describes no record
pub open spec fn rec_count(fields: Seq<TemplateField>, b: Seq<u8>) -> int {
    let sz = total_size(fields, fields.len() as int);
    if sz == 0 { 0 } else { b.len() as int / sz }
}
pub open spec fn recs_rel(out: Seq<BTreeMap<usize, V9FieldPair>>, fields: Seq<TemplateField>, rows: Seq<Seq<FieldValue>>) -> bool {
    &&& out.len() == rows.len()
    &&& forall|k: int| 0 <= k < out.len() ==> map_is(#[trigger] out[k]@, fields, rows[k], fields.len() as int)
}
pub open spec fn v9_records_post<'a>(input: &'a [u8], template: Template, r: IResult<&'a [u8], Vec<BTreeMap<usize, V9FieldPair>>>) -> bool {
    let (rows, rest) = recs_spec(template.fields@, input@, rec_count(template.fields@, input@));
    &&& r is Ok
    &&& r->Ok_0.0@ =~= rest
    &&& recs_rel(r->Ok_0.1@, template.fields@, rows)
}
} // verus!
