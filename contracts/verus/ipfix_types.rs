// IPFIX data types for the FlowSetBody / template units.  Result payload types that these units
// never look inside are opaque.
verus! {
#[verifier::external_body] pub struct IPFixField { _p: () }
#[verifier::external_body] pub struct Data { _p: () }
#[verifier::external_body] pub struct OptionsData { _p: () }
//@ alias src/variable_versions/ipfix.rs - TemplateId
//@ type src/variable_versions/ipfix.rs - IPFixParser
//@ type src/variable_versions/ipfix.rs - FlowSetBody
//@ type src/variable_versions/ipfix.rs - Template
//@ type src/variable_versions/ipfix.rs - OptionsTemplate
//@ type src/variable_versions/ipfix.rs - TemplateField
//@ const src/variable_versions/ipfix.rs - OPTIONS_TEMPLATE_ID
//@ const src/variable_versions/ipfix.rs - SET_MIN_RANGE
// derive(Clone): a clone is equal to the original
impl Clone for Template {
    #[verifier::external_body]
    fn clone(&self) -> (r: Self) ensures r == *self { unimplemented!() }
}
impl Clone for OptionsTemplate {
    #[verifier::external_body]
    fn clone(&self) -> (r: Self) ensures r == *self { unimplemented!() }
}
}
