// contract of the IPFIX set loop `many0(complete(|i| FlowSet::parse(i, parser)...))(i).map(|(_, sets)| sets)`
// (the map_res closure of ipfix::IPFix::parse_be), proved by V.ipfix.sets on its closure-converted form (rule R17)
pub fn vf_ipfix_sets<'a>(i: &'a [u8], parser: &mut IPFixParser) -> (r: Result<Vec<FlowSet>, nom::Err<nom::error::Error<&'a [u8]>>>)
    ensures
        sets_post(*old(parser), *final(parser), i, r),
