// contract of V5Parser::parse
pub fn parse(packet: &[u8]) -> (r: Result<ParsedNetflow, NetflowParseError>)
    ensures
        subres_eq(to_subres(r), v5_fn(packet@)),
        sub_wf(packet@, v5_fn(packet@), 5),
