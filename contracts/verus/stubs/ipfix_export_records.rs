// contract of the data-record export loop of IPFix::to_be_bytes, Data branch (R5 stub there; discharged by V.ipfix.export_records)
pub fn vf_export_records(result_flowset: &mut Vec<u8>, data: &Data) -> (r: Result<(), VfError>)
    ensures
        r is Ok ==> final(result_flowset)@ =~= old(result_flowset)@ + recs_enc(data.fields@, data.fields@.len() as int),
