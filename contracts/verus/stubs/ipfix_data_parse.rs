// contract of ipfix::Data::parse (nom-derive; frame proved by V.ipfix.data.parse on the expansion)
pub fn parse<'a>(orig_i: &'a [u8], parser: &mut IPFixParser, set_id: u16) -> (r: IResult<&'a [u8], Data>)
    ensures
        *final(parser) == *old(parser),
