// contract of v9::FlowSetParser::parse_flowsets, proved by V.v9.flowsets
pub fn parse_flowsets<'a>(i: &'a [u8], parser: &mut V9Parser, record_count: u16) -> (r: IResult<&'a [u8], Vec<FlowSet>>)
    ensures
        flowsets_post(*old(parser), *final(parser), i, record_count, r),
