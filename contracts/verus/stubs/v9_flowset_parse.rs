// contract of v9::FlowSet::parse (nom-derive: `parse` is `Self::parse_be`; both proved by V.v9.flowset)
pub fn parse<'a>(orig_i: &'a [u8], parser: &mut V9Parser) -> (r: IResult<&'a [u8], FlowSet>)
    ensures
        flowset_post(*old(parser), *final(parser), orig_i, r),
