// contract of ipfix::FlowSet::parse (nom-derive: `parse` is `Self::parse_be`; both proved by V.ipfix.flowset)
pub fn parse<'a>(orig_i: &'a [u8], parser: &mut IPFixParser) -> (r: IResult<&'a [u8], FlowSet>)
    ensures
        flowset_post(*old(parser), *final(parser), orig_i, r),
