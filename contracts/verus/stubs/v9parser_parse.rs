// contract of V9Parser::parse
pub fn parse(&mut self, packet: &[u8]) -> (r: Result<ParsedNetflow, NetflowParseError>)
    ensures
        subres_eq(to_subres(r), v9_fn(*old(self), packet@).0),
        *final(self) == v9_fn(*old(self), packet@).1,
        sub_wf(packet@, v9_fn(*old(self), packet@).0, 9),
