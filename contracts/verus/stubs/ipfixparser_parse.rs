// contract of IPFixParser::parse
pub fn parse(&mut self, packet: &[u8]) -> (r: Result<ParsedNetflow, NetflowParseError>)
    ensures
        subres_eq(to_subres(r), ipfix_fn(*old(self), packet@).0),
        *final(self) == ipfix_fn(*old(self), packet@).1,
        sub_wf(packet@, ipfix_fn(*old(self), packet@).0, 10),
