// contract of v9::ScopeDataField::parse (proved by V.v9.scope_field)
fn parse<'a>(input: &'a [u8], template_field: &OptionsTemplateScopeField) -> (r: IResult<&'a [u8], ScopeDataField>)
    ensures
        sdf_post(input, *template_field, r),
