// contract of V9::parse -- ASSUMED (closure captures &mut parser: outside Verus; see bounded stand-ins)
pub fn parse<'a>(i: &'a [u8], parser: &mut V9Parser) -> (r: IResult<&'a [u8], V9>)
    ensures
        nom_view(r) == v9_nom(*old(parser), i@).0,
        *final(parser) == v9_nom(*old(parser), i@).1,
        r is Ok ==> is_suffix(r->Ok_0.0@, i@),
