// contract of V9::parse as used by the wrapper unit: clauses 1-2 say that result and final parser are a FUNCTION of
// (parser, bytes) (v9_nom: determinism of safe Rust without interior randomness -- not an obligation); clause 3 (the remainder
// is a suffix of the input) is discharged by V.v9.packet on the macro expansion of V9::parse_be / parse.
pub fn parse<'a>(i: &'a [u8], parser: &mut V9Parser) -> (r: IResult<&'a [u8], V9>)
    ensures
        nom_view(r) == v9_nom(*old(parser), i@).0,
        *final(parser) == v9_nom(*old(parser), i@).1,
        r is Ok ==> is_suffix(r->Ok_0.0@, i@),
