// contract of v9::OptionDataField::parse (nom-derive: `parse` is `Self::parse_be`; both proved by V.v9.optionsdata):
// exactly field_length bytes, kept raw, under the template's field type; fewer bytes => Incomplete (streaming take)
pub fn parse<'a>(orig_i: &'a [u8], field: &TemplateField) -> (r: IResult<&'a [u8], OptionDataField>)
    ensures
        match odf_step(*field, orig_i@) {
            None => r is Err && r->Err_0 is Incomplete,
            Some((v, rest)) => r is Ok && r->Ok_0.1.field_type == v.0 && r->Ok_0.1.field_value@ =~= v.1 && r->Ok_0.0@ =~= rest,
        },
