// contract of v9::Data::parse (nom-derive; frame proved by V.v9.data.parse on the expansion)
pub fn parse<'a>(orig_i: &'a [u8], parser: &mut V9Parser, flowset_id: u16) -> (r: IResult<&'a [u8], Data>)
    ensures
        *final(parser) == *old(parser),
