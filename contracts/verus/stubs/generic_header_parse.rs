// contract of GenericNetflowHeader::parse (derive(Nom) on `struct { version: u16 }`)
fn parse(i: &[u8]) -> (r: IResult<&[u8], GenericNetflowHeader>)
    ensures
        i@.len() < 2 ==> r is Err,
        i@.len() >= 2 ==> r is Ok && r->Ok_0.0@ == i@.subrange(2, i@.len() as int)
            && r->Ok_0.1.version == be16(i@, 0),
