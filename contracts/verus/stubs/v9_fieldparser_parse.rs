// contract of v9::FieldParser::parse (proved by V.v9.records)
pub fn parse<'a>(input: &'a [u8], template: Template) -> (r: IResult<&'a [u8], Vec<BTreeMap<usize, V9FieldPair>>>)
    ensures
        v9_records_post(input, template, r),
