// contract of V7::parse (nom-derive; proved for all counts by V.v7.parse against a concrete decoder)
pub fn parse(i: &[u8]) -> (r: IResult<&[u8], V7>)
    ensures
        nom_view(r) == v7_nom(i@),
        r is Ok ==> is_suffix(r->Ok_0.0@, i@),
