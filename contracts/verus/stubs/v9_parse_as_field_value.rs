// contract of v9::TemplateField::parse_as_field_value (proved by V.v9.scope_field): the field is decoded by
// FieldValue::from_field_type as the library's data type for that field, with the template's length
pub fn parse_as_field_value<'a>(&self, input: &'a [u8]) -> (r: IResult<&'a [u8], FieldValue>)
    ensures
        nom_view(r) == fv_from(input@, datatype_of(self.field_type), self.field_length),
