// contract of v9::OptionsData::parse -- ASSUMED frame (nom-derive many0 over an FnMut closure: outside Verus);
// the expansion reads parser.options_templates only (bounded stand-in B.v9.optionsdata_frame)
pub fn parse<'a>(orig_i: &'a [u8], parser: &mut V9Parser, flowset_id: u16) -> (r: IResult<&'a [u8], OptionsData>)
    ensures
        *final(parser) == *old(parser),
