// contract of v9::OptionsData::parse as used by V.v9.flowsetbody (the frame); proved, together with the full
// decoding contract optionsdata_post, by V.v9.optionsdata
pub fn parse<'a>(orig_i: &'a [u8], parser: &mut V9Parser, flowset_id: u16) -> (r: IResult<&'a [u8], OptionsData>)
    ensures
        *final(parser) == *old(parser),
