// contract of the data-record export loop of V9::to_be_bytes (R5 stub there; discharged by V.v9.export_records)
pub fn vf_export_records(result: &mut Vec<u8>, data: &Data) -> (r: Result<(), VfError>)
    ensures
        r is Ok ==> final(result)@ =~= old(result)@ + recs_enc(data.fields@, data.fields@.len() as int),
