// contract of ParsedNetflow::new
fn new(remaining: &[u8], result: NetflowPacket) -> (r: ParsedNetflow)
    ensures
        r.remaining@ == remaining@,
        r.result == result,
