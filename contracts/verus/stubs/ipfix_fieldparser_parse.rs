// contract of ipfix::FieldParser::parse (proved by V.ipfix.records)
pub fn parse<'a, T: CommonTemplate>(i: &'a [u8], template: T) -> (r: IResult<&'a [u8], Vec<BTreeMap<usize, IPFixFieldPair>>>)
    ensures
        ipfix_records_post(i, template.fields_spec(), r),
