// contract of NetflowParser::parse_packet_by_version
fn parse_packet_by_version<'a>(&'a mut self, packet: &'a [u8]) -> (r: Result<ParsedNetflow, NetflowParseError>)
    ensures
        final(self).allowed_versions == old(self).allowed_versions,
        subres_eq(to_subres(r), pp_spec(state_of(*old(self)), old(self).allowed_versions@, packet@).0),
        state_of(*final(self)) == pp_spec(state_of(*old(self)), old(self).allowed_versions@, packet@).1,
        r is Ok ==> r->Ok_0.remaining@.len() + 2 <= packet@.len() && is_suffix(r->Ok_0.remaining@, packet@),
        packet@.len() >= 2 && !old(self).allowed_versions@.contains(be16(packet@, 0)) ==> *final(self) == *old(self),
