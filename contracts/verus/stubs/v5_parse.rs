// contract of V5::parse (nom-derive; proved for all counts by V.v5.parse against a concrete decoder)
pub fn parse(i: &[u8]) -> (r: IResult<&[u8], V5>)
    ensures
        nom_view(r) == v5_nom(i@),
        r is Ok ==> is_suffix(r->Ok_0.0@, i@),
