// contract of IPFix::parse -- ASSUMED (closure captures &mut parser: outside Verus; see bounded stand-ins)
pub fn parse<'a>(i: &'a [u8], parser: &mut IPFixParser) -> (r: IResult<&'a [u8], IPFix>)
    ensures
        nom_view(r) == ipfix_nom(*old(parser), i@).0,
        *final(parser) == ipfix_nom(*old(parser), i@).1,
        r is Ok ==> is_suffix(r->Ok_0.0@, i@),
