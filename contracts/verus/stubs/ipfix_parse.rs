// contract of IPFix::parse as used by the wrapper unit: clauses 1-2 say that result and final parser are a FUNCTION of
// (parser, bytes) (ipfix_nom: determinism of safe Rust without interior randomness -- not an obligation); clause 3 (the remainder
// is a suffix of the input) is discharged by V.ipfix.message on the macro expansion of IPFix::parse_be / parse.
pub fn parse<'a>(i: &'a [u8], parser: &mut IPFixParser) -> (r: IResult<&'a [u8], IPFix>)
    ensures
        nom_view(r) == ipfix_nom(*old(parser), i@).0,
        *final(parser) == ipfix_nom(*old(parser), i@).1,
        r is Ok ==> is_suffix(r->Ok_0.0@, i@),
