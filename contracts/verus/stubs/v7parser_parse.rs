// contract of V7Parser::parse
pub fn parse(packet: &[u8]) -> (r: Result<ParsedNetflow, NetflowParseError>)
    ensures
        subres_eq(to_subres(r), v7_fn(packet@)),
        sub_wf(packet@, v7_fn(packet@), 7),
