// Shared specification of one IPFIX set (ipfix::FlowSet::parse / parse_be) and of the set loop of a message
// (the many0(complete(..)) expression inside ipfix::IPFix::parse_be).  Included by V.ipfix.flowset (which proves
// flowset_post on the real FlowSet::parse_be), V.ipfix.sets (which proves sets_post on the lifted loop) and
// V.ipfix.message (which uses sets_post).  Needs the types FlowSet, FlowSetHeader, FlowSetBody, IPFixParser in scope.
verus! {
/// semantic function of FlowSetBody::parse: result (None on error) and the parser afterwards
pub uninterp spec fn body_fn(st: IPFixParser, b: Seq<u8>, id: u16) -> (Option<FlowSetBody>, IPFixParser);
pub open spec fn set_body_len(b: Seq<u8>) -> int { if be16(b, 2) >= 4 { be16(b, 2) - 4 } else { 0 } }

pub open spec fn flowset_post<'a>(old_p: IPFixParser, new_p: IPFixParser, b: &'a [u8], r: IResult<&'a [u8], FlowSet>) -> bool {
    &&& (r is Err ==> r->Err_0 is Error)             // never Failure/Incomplete: the set loop stops, the message does not fail
    &&& if b@.len() < 4 || b@.len() < 4 + set_body_len(b@) {
        r is Err && new_p == old_p                   // announced bytes missing: nothing interpreted, caches untouched
    } else {
        let l = set_body_len(b@);
        let (body, st1) = body_fn(old_p, b@.subrange(4, 4 + l), be16(b@, 0));
        &&& new_p == st1                             // the caches change exactly as FlowSetBody::parse changes them
        &&& (body is None ==> r is Err)
        &&& (body is Some ==> r is Ok && r->Ok_0.1.body == body->0
                && r->Ok_0.1.header.header_id == be16(b@, 0) && r->Ok_0.1.header.length == be16(b@, 2)
                && r->Ok_0.0@ == b@.subrange(4 + l, b@.len() as int))   // consumes max(length, 4) bytes
    }
}

/// one set read from the front of b: the set and the bytes after it, or None; and the parser afterwards
pub open spec fn set_step(st: IPFixParser, b: Seq<u8>) -> (Option<(FlowSet, Seq<u8>)>, IPFixParser) {
    if b.len() < 4 || b.len() < 4 + set_body_len(b) { (None, st) } else {
        let l = set_body_len(b);
        let (body, st1) = body_fn(st, b.subrange(4, 4 + l), be16(b, 0));
        match body {
            None => (None, st1),
            Some(bd) => (Some((FlowSet { header: FlowSetHeader { header_id: be16(b, 0), length: be16(b, 2) }, body: bd },
                               b.subrange(4 + l, b.len() as int))), st1),
        }
    }
}
/// the sets of a message body: read one after the other, each from where the previous one ended, until the bytes run
/// out or a set cannot be read; that set and everything after it are omitted (C07) -- the loop never fails.
/// Result: the sets, the unread bytes, the parser afterwards.
pub open spec fn sets_spec(st: IPFixParser, b: Seq<u8>) -> (Seq<FlowSet>, Seq<u8>, IPFixParser)
    decreases b.len()
{
    let (x, st1) = set_step(st, b);
    match x {
        None => (Seq::<FlowSet>::empty(), b, st1),
        Some((f, rest)) => if rest.len() < b.len() {
            let (fs, rem, st2) = sets_spec(st1, rest);
            (seq![f] + fs, rem, st2)
        } else { (Seq::<FlowSet>::empty(), b, st1) },
    }
}
pub open spec fn sets_post<'a>(old_p: IPFixParser, new_p: IPFixParser, b: &'a [u8], r: Result<Vec<FlowSet>, nom::Err<nom::error::Error<&'a [u8]>>>) -> bool {
    &&& r is Ok
    &&& r->Ok_0@ =~= sets_spec(old_p, b@).0
    &&& new_p == sets_spec(old_p, b@).2
}
} // verus!
